NOT_APPLICABLE = {}
CHECKS["C02"] = (
    "exploration", "round-trip against an independent codec; exhaustive length sweep + Hypothesis",
    "Differential round trip between msmart's V2 codec and an independently written one, in both directions and through LAN.send on the simulated network: every frame length 0..255 (all PKCS#7 pads/block counts) exhaustively, ids and clocks generated. No counterexample among the counted cases; not a proof.",
    "Trusted base shared with the code under test: AES block primitive (checked against FIPS-197 vectors), MD5. Reference codec anchored to captured packets (self-test).",
    "DESIGN.md 3/C02")
CHECKS["C05"] = (
    "exploration", "differential round-trip against an independent V3 codec; exhaustive lengths/counters/bit flips + Hypothesis",
    "Request direction: msmart's encrypted request decoded by an independent V3 implementation (counter, pad, size, type, SHA-256 tag, payload) for every payload length 0..300 and every counter 0..4095; response direction: independently encoded responses decoded by msmart; every single-bit flip of one response per padding residue must be rejected with ProtocolError at the level where the library consumes it; plus LAN.send over an authenticated simulated connection. Search, not proof.",
    "Trusted base shared with the code under test: AES block primitive, SHA-256. Reference anchored to a captured V3 packet (self-test reproduces it byte for byte).",
    "DESIGN.md 3/C05")
