NOT_APPLICABLE = {}
CHECKS["C02"] = (
    "exploration", "round-trip against an independent codec; exhaustive length sweep + Hypothesis",
    "Differential round trip between msmart's V2 codec and an independently written one, in both directions and through LAN.send on the simulated network: every frame length 0..255 (all PKCS#7 pads/block counts) exhaustively, ids and clocks generated. No counterexample among the counted cases; not a proof.",
    "Trusted base shared with the code under test: AES block primitive (checked against FIPS-197 vectors), MD5. Reference codec anchored to captured packets (self-test).",
    "DESIGN.md 3/C02")
