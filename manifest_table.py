NOT_APPLICABLE = {}
CHECKS["C02"] = (
    "exploration", "round-trip against an independent codec; exhaustive length sweep + Hypothesis",
    "Differential round trip between msmart's V2 codec and an independently written one, in both directions and through LAN.send on the simulated network: every frame length 0..255 (all PKCS#7 pads/block counts) exhaustively, ids and clocks generated. No counterexample among the counted cases; not a proof.",
    "Trusted base shared with the code under test: AES block primitive (checked against FIPS-197 vectors), MD5. Reference codec anchored to captured packets (self-test).",
    "DESIGN.md 3/C02")
CHECKS["C05"] = (
    "exploration", "differential round-trip against an independent V3 codec; exhaustive lengths/counters/bit flips + Hypothesis",
    "Request direction: msmart's encrypted request decoded by an independent V3 implementation (counter, pad, size, type, SHA-256 tag, payload) for every payload length 0..300 and every counter 0..4095; response direction: independently encoded responses decoded by msmart; every single-bit flip of one response per padding residue must be rejected with ProtocolError at the level where the library consumes it; plus LAN.send over an authenticated simulated connection. Search, not proof.",
    "Trusted base shared with the code under test: AES block primitive, SHA-256. Reference anchored to a captured V3 packet (self-test reproduces it byte for byte).",
    "DESIGN.md 3/C05")
CHECKS["C03"] = (
    "fault_enumeration", "exhaustive single-fault enumeration (bit flips, truncations, byte substitutions, length rewrites) + Hypothesis multi-byte corruption",
    "Every single-bit flip and every truncation of ten authentic packets (frame lengths across block boundaries) exhaustively, byte substitutions (all 255 values per position for three packets in thorough), all 65 536 length-field values for one packet (thorough), random multi-byte corruptions, and each fault class through LAN.send with the model device sending the corrupted packet. Oracle: ProtocolError, never a frame. Complete for the enumerated single faults of the listed packets; search beyond.",
    "Authentic packets come from the independent encoder (anchored to a captured packet). Faults are not re-signed; signed garbage is C09.",
    "DESIGN.md 3/C03")
CHECKS["C04"] = (
    "exploration", "exhaustive cut-set enumeration (<=3 cuts) on short streams + Hypothesis random segmentations; virtual-time latency oracle",
    "Streams of 1..4 V3 packets with marker-bearing payloads and marker-free garbage prefixes are fed to the protocol in every segmentation with up to three cuts (exhaustive for the enumerated short streams), byte-by-byte, and in random segmentations of streams up to 64 KiB; after each chunk exactly the packets completed by that chunk must come out, in order, byte-identical. Level 2 checks through LAN.send that the call returns at the virtual instant the last byte of the first packet arrives and that nothing is lost or duplicated across two sends.",
    "Schedules are (time, chunk) delivery scripts on a single-threaded virtual-time loop; kernel TCP behaviour is not modelled.",
    "DESIGN.md 3/C04")
CHECKS["C06"] = (
    "exploration", "exhaustive reply mutation (512 bit flips, lengths, type nibbles, keys) + Hypothesis over credentials/forms/prior state, end to end against a model device",
    "Device.authenticate runs end to end against a model V3 device that derives its own session key independently. Genuine replies must yield a session in which the model decrypts the next refresh under the agreed key; every single-bit flip of the 64-byte reply, wrong lengths, every other type nibble, error packets, replies under a different key (random and all 1-bit neighbours in thorough) and silence must yield exactly AuthenticationError, nothing but handshake requests on the wire, unchanged stored credentials and a following send that fails without data reaching the device. Exhaustive for the listed single mutations per credential set; search over credentials.",
    "The model device's nonce policy (fresh nonce per request) is an assumption; oracles do not depend on it.",
    "DESIGN.md 3/C06")
CHECKS["C09"] = (
    "exploration", "grammar-aware hostile-peer generation with re-signing/re-encryption (Hypothesis) + boundary catalogue; atheris in thorough",
    "A recipe language builds hostile packets from valid V2/V3 templates with field overrides and recomputed signatures/tags so they pass the integrity guards; they are injected at every protocol phase (V2 send, V3 handshake, post-auth data, re-auth after 12 h) and observed at three API levels. Oracle: outcome class only (frames / ProtocolError / TimeoutError; AuthenticationError for Device.authenticate; no exception from refresh when no frame was produced). No counterexample among the counted cases.",
    "Peer behaviour is limited to what (time, chunk) scripts on one connection can express.",
    "DESIGN.md 3/C09")
CHECKS["C10"] = (
    "exploration", "per-field exhaustive sweeps + pairwise covering array + Hypothesis; oracle = vendor-layout decoder of the 0x40 body in the model device",
    "Settable states are written through the public setters and apply() (and through SetStateCommand) to a model device whose 0x40 decoder was written from the vendor Lua reference; the decoded body must equal the request field by field, vendor-fixed constants must hold, and distinct states must not collide. All 62 setpoints x 6 modes, all 128 fan bytes, humidity 0..127, all 512 flag combinations x aux, over two backgrounds, plus a pairwise covering array and random states.",
    "The vendor Lua file is the layout authority; follow-me bit taken from dudanov/MideaUART. Linear alternate setpoint mapping per the property's 13-43 C range.",
    "DESIGN.md 3/C10")
CHECKS["C11"] = (
    "exploration", "exhaustive raw-body grids + Hypothesis; oracle = vendor-layout reading of the 0xC0 body and the statement's temperature predicate",
    "Raw 0xC0 bodies built by the model's vendor-layout encoder with raw overrides are reported to fresh clients through refresh() on the simulated network (V2 and V3) and through Response.construct+_update_state. Complete grids: 256x10 temperature byte x tenths for both sensors and units, 32x32 setpoint codes, every value of every interpreted byte, lengths 16..40, both check styles, frame types 2/3; random bodies beyond.",
    "Fan byte limited to 0..127; mode asserted for members 1..6 and swing for the four canonical nibbles only (the vendor layout does not define the rest).",
    "DESIGN.md 3/C11")
CHECKS["C12"] = (
    "exploration", "exhaustive enumeration of command classes x parameters + id-wrapping sequences + Hypothesis device-operation histories; oracle = strict independent frame parser and the model's conformance parser",
    "Every Command subclass over its whole parameter domain (all 4096 property-id subsets, all 511 property-write subsets, all single values 0..255 per writable id, set-state over C10's domain), sequences of 300..700 commands that wrap the message id, and every public AirConditioner operation under generated capability profiles against the model device, which rejects any frame a spec-conforming parser would reject.",
    "Strict parser written from the frame layout (bitwise CRC-8 cross-checked with the library table in the self-test).",
    "DESIGN.md 3/C12")
CHECKS["C13"] = (
    "fault_enumeration", "exhaustive single-byte corruption of every response kind (all positions x all 255 values, with/without outer checksum fix-up) against an independent validity predicate",
    "Decoder level is exhaustive in both tiers (~125k faults): a frame failing the independent predicate must raise InvalidFrame/InvalidResponse. Full stack: a prepared client (capabilities + state from a good device) meets a device that has changed every field, property and capability and answers every request with the corrupted frame; to_dict(), breeze/ieco and all capability attributes must be unchanged, online/supported false, no exception (8 values per position quick, all 255 thorough).",
    "Corruptions that satisfy the other body check or turn the id into 0xB0/0xB1 are valid by the property's definition (counted, not asserted).",
    "DESIGN.md 3/C13")
CHECKS["C14"] = (
    "exploration", "structured generation of checksummed malformed responses (truncation to every length, count/size bytes 0..255, all ids x frame types, oversize) in good/bad mixes over all operations; metamorphic oracle against the clean run; atheris in thorough",
    "Bad frames are rebuilt with valid CRC and checksum so they pass validation and reach the parsers; they answer every request of refresh, apply (with and without pending property writes), get_capabilities (one and two pages), toggle_display and start_self_clean, alone or mixed before/after the model's good answers. No operation may raise; when the bad members are irrelevant by specification the final client state must equal that of the clean run.",
    "The 'irrelevant by specification' classes are listed in the evidence assumptions; other bad frames only get the no-raise oracle.",
    "DESIGN.md 3/C14")
CHECKS["C15"] = (
    "exploration", "metamorphic relations over generated record lists (whole = in-order merge of singletons; one page = two pages at every split) via Hypothesis + per-id/size/value sweep",
    "No model of the reader table is needed: the capabilities of a list must equal the in-order merge of the capabilities of its single records, and get_capabilities() against a device serving the list in one page or split at k with the more-flag must expose identical capability attributes with exactly one additional request. Every known and several unknown ids x sizes 0..10 x distinguishing first values in front of known records; random lists of up to 12 records.",
    "Records are well-formed (declared size == data present); trailer shapes as captured.",
    "DESIGN.md 3/C15")
CHECKS["C16"] = (
    "exploration", "model-based history generation (Hypothesis, operation lists interpreted against a reference model of pending writes and the device property store) + per-setter scripts on every profile family",
    "Histories of setter calls, applies, refreshes, self-clean, beep toggles and device-side changes run against a model device with a vendor-layout property store under generated capability profiles. After every apply the device's write log must contain exactly one 0xB0 with exactly the pending ids under the advertised id and vendor encoding (or none when nothing is pending); after every refresh the attributes must equal the device's store; at most one breeze mode is ever true.",
    "'Legacy both' devices are assumed to keep the two louver modes exclusive; setters are called only where supports_* is true.",
    "DESIGN.md 3/C16")
CHECKS["C01"] = (
    "exploration", "end-to-end Hypothesis generation (state x protocol version x credentials x device id x delivery schedule x unsolicited frames) with the model device as oracle in both directions",
    "The unmodified library runs through every layer against an independently written V2/V3 model device on the simulated network: apply direction (device state decoded by the vendor-layout decoder must equal the applied state, untouched fields unchanged, nothing rejected, right device id on every packet) and read-back direction by a fresh client on a fresh connection. Delivery schedules cut V3 streams anywhere (incl. byte-by-byte), coalesce packets and insert duplicate/unsolicited frames. One recorded finding (non-reply frame ends the exchange) is classified by re-running the failing case with simultaneous delivery and excluded from violation reports.",
    "V2 replies are delivered one packet per segment (V2 has no reassembly by design). Devices answer within the 2 s read timeout in this property (lateness is C08).",
    "DESIGN.md 3/C01")
CHECKS["C08"] = (
    "fault_enumeration", "exhaustive enumeration of retry/answer-delay patterns against a reference model on the virtual clock; exhaustive single and pairwise fault injection with recovery oracle; Hypothesis fault sequences",
    "Part A enumerates every pattern of answered/unanswered transmissions and answer delays around the 2 s grid for retry budgets 1..4 on V2 and V3 and compares transmission count, exact virtual return time and outcome with a ten-line reference model of the retry loop (plus the device-level consequences). Part B injects every single fault and ordered pair of faults (silence, silence incl. handshake, error packet, garbage, peer close, refused and hanging connect, cancellation at each protocol phase) on fresh and established connections and requires the next clean exchange to succeed without user intervention. Part C searches longer sequences.",
    "Timing is exact because the harness owns the clock; handshake replies are prompt or never; cancellation points are drawn by protocol phase.",
    "DESIGN.md 3/C08")
CHECKS["C07"] = (
    "exploration", "model-based history generation (Hypothesis event lists incl. faults, clock jumps and phase-targeted cancellation) with a wire monitor built on the reference codec; long-session sweeps past 65 536 packets",
    "Every byte the model V3 device receives on every connection is parsed with the independent codec and checked against four rules (nothing but token-bearing handshake requests before an answered handshake; every data packet under the latest completable session key of its own connection; counters start at 0, step by one and wrap only from 2^k-1; no data later than 12 h after the last handshake or later than the configured lifetime after connect). Histories mix sends, faults, explicit authentications with good/bad credentials, 12 h and lifetime jumps on the virtual clock and cancellations; long sessions cross the 12-bit wrap (4 200 exchanges quick, 66 000 thorough) and 70 000 protocol-level writes cross 65 536.",
    "Expiry rules allow one exchange of slack (retransmissions of an exchange that began before expiry); re-handshaking early is allowed.",
    "DESIGN.md 3/C07")
CHECKS["C17"] = (
    "exploration", "Hypothesis generation of advertised identities on a simulated UDP network + exhaustive type-byte sweep; replies from an independent builder anchored to captured replies; probe verified by the model hosts",
    "Hosts with generated ids, ports, serials, names (every type byte, both hex cases), reported IPs, trailing bytes, reply versions and listening/source ports answer only the exact well-known probe arriving on their own port; Discover.discover / discover_single must report one object per host with exactly the advertised identity, the source address, and the right class. A changed probe constant, port list, field offset or byte order yields a missing or mis-identified host.",
    "Reply layout taken from captured V2/V3 replies (the reference builder reproduces both byte for byte in the self-test).",
    "DESIGN.md 3/C17")
CHECKS["C18"] = (
    "exploration", "exhaustive interleavings of small reply multisets + every bad-reply class value next to a good host + Hypothesis random host sets and arrival orders",
    "Good hosts send 1..6 duplicate replies from both ports; bad hosts send one class of malformed reply (12 classes, each enumerated over its parameter, e.g. body cut at every length 0..45). All permutations of small multisets of replies are enumerated; larger ones are sampled. discover() must never raise and must report exactly the good hosts, once each, with their identity; with auto_connect a V2 host backed by a model device must come online.",
    "Bad classes are limited to replies that cannot be parsed for certain (cuts inside the name that still parse are not asserted either way); V3 auto-connect is C19's domain.",
    "DESIGN.md 3/C18")
CHECKS["C19"] = (
    "exploration", "Hypothesis generation of accounts, token lists with near-miss ids and per-endpoint fault scripts against a model cloud that verifies every request; end-to-end discovery leg with a V3 model device registered under either byte order",
    "A model NetHome Plus server (httpx.MockTransport injected through the library's own get_async_client parameter) recomputes the signature from the received fields, checks the constant fields, login id, password derivation, session id and udpid, and records every failed check; the client must return exactly the matching token/key entry (never a prefix/suffix/case-flipped/one-digit-off neighbour) or CloudError, and must surface timeouts, HTTP and API errors as CloudError/ApiError after the right number of POSTs. The discovery leg requires a V3 device whose credentials are registered under the little- or big-endian udpid to end up authenticated with exactly those credentials.",
    "ASCII accounts/passwords; JSON always well-formed; signature scheme as publicly documented for NetHome Plus.",
    "DESIGN.md 3/C19")
CHECKS["C20"] = (
    "exploration", "grammar-based argv generation from the README table + exhaustive (setting, member, case style) triples + invalid catalogue; msmart.cli.main() run in-process on the virtual network against the model device",
    "Valid command lines must exit 0 and leave the model device in its initial state overlaid with the documented meaning of each pair (enum by any-case name or integer, raw fan integers, int/float numbers, all boolean spellings, display toggled exactly once iff it differs, property-protocol settings in the device's property store); invalid ones (unknown, read-only, methods, non-members, ill-typed, missing '=' or value), alone or mixed after valid pairs, must exit non-zero with no connection attempt and no datagram on the simulated network.",
    "An uncaught exception counts as exit status 1. Ambiguous spellings are in neither table.",
    "DESIGN.md 3/C20")
