"""Helpers that map between the library's public AirConditioner attributes and the model's state."""
from __future__ import annotations

from typing import Any

from .model_ac import ACState


def set_attrs(ac, s: dict, forms: str = "") -> None:
    """Set every settable public attribute of an AirConditioner from a settable-state dict.  forms="plain": the caller hands over
    plain Python numbers - an integral setpoint as int (example.py does), switches as 1/0 - instead of float / bool."""
    from msmart.device import AirConditioner as AC
    if forms == "plain":
        s = dict(s, target=int(s["target"]) if float(s["target"]).is_integer() else s["target"],
                 **{k: int(s[k]) for k in ("power", "eco", "turbo", "sleep", "fahrenheit", "freeze", "follow_me", "purifier")})
    ac.power_state = s["power"]
    ac.operational_mode = AC.OperationalMode(s["mode"]) if s["mode"] in (1, 2, 3, 4, 5, 6) else s["mode"]
    ac.target_temperature = s["target"]
    try:
        ac.fan_speed = AC.FanSpeed(s["fan"])
    except ValueError:
        ac.fan_speed = s["fan"]
    ac.swing_mode = AC.SwingMode(s["swing"]) if s["swing"] in (0, 0xC, 0x3, 0xF) else s["swing"]
    ac.eco = s["eco"]
    ac.turbo = s["turbo"]
    ac.sleep = s["sleep"]
    ac.fahrenheit = s["fahrenheit"]
    ac.freeze_protection = s["freeze"]
    ac.follow_me = s["follow_me"]
    ac.purifier = s["purifier"]
    ac.target_humidity = s["humidity"]
    ac.aux_mode = AC.AuxHeatMode(s["aux"])
    ac.beep = s["beep"]


def expected_model_fields(s: dict) -> dict:
    """What the model device must end up with (vendor granularity) after applying settable state s."""
    return {
        "power": s["power"], "mode": s["mode"], "target": float(s["target"]), "fan": s["fan"], "swing": s["swing"],
        "eco": s["eco"], "strong_wind": s["turbo"], "tubro": s["turbo"], "sleep": s["sleep"], "fahrenheit": s["fahrenheit"],
        "freeze": s["freeze"], "follow_me": s["follow_me"], "purifier": s["purifier"], "humidity": s["humidity"],
        "ptc": s["aux"] == 1, "ptc_force": False, "independent_ptc": s["aux"] == 2, "buzzer": s["beep"],
    }


def diff_model(state: ACState, want: dict) -> list:
    out = []
    for k, v in want.items():
        got = getattr(state, k)
        if got != v:
            out.append(f"{k}: device has {got!r}, requested {v!r}")
    return out


def read_attrs(ac) -> dict:
    """Public attributes of an AirConditioner in the settable-state vocabulary (+ read-only fields)."""
    fan = ac.fan_speed
    return {
        "power": ac.power_state, "mode": int(ac.operational_mode), "mode_type": type(ac.operational_mode).__name__,
        "target": ac.target_temperature, "fan": int(fan), "fan_type": type(fan).__name__,
        "swing": int(ac.swing_mode), "swing_type": type(ac.swing_mode).__name__,
        "eco": ac.eco, "turbo": ac.turbo, "sleep": ac.sleep, "fahrenheit": ac.fahrenheit, "freeze": ac.freeze_protection,
        "follow_me": ac.follow_me, "purifier": ac.purifier, "humidity": ac.target_humidity, "aux": int(ac.aux_mode),
        "display_on": ac.display_on, "filter_alert": ac.filter_alert, "indoor": ac.indoor_temperature,
        "outdoor": ac.outdoor_temperature, "online": ac.online, "supported": ac.supported,
    }


def expected_attrs_from_model(state: ACState, *, state_len: int = 24) -> dict:
    """What a refresh must expose for a model device in ``state`` (library granularity)."""
    aux = 2 if state.independent_ptc else (1 if state.ptc else 0)
    return {
        "power": state.power, "mode": state.mode, "target": float(state.target), "fan": state.fan, "swing": state.swing,
        "eco": state.eco, "turbo": state.strong_wind or state.tubro, "sleep": state.sleep, "fahrenheit": state.fahrenheit,
        "freeze": state.freeze if state_len >= 22 else None, "follow_me": state.follow_me, "purifier": state.purifier,
        "humidity": state.humidity if state_len >= 20 else None, "aux": aux, "display_on": state.display_on,
        "filter_alert": state.filter_alert,
    }


def temp_ok(value: Any, raw: int, tenths: int, fahrenheit: bool) -> bool:
    """The statement's own predicate for sensor temperatures."""
    if raw == 0xFF:
        return value is None
    if value is None:
        return False
    coarse = (raw - 50) / 2
    if abs(value - coarse) > 1 + 1e-9:
        return False
    if not fahrenheit and tenths != 0:
        frac = abs(value) - int(abs(value))
        if abs(frac - tenths / 10) > 1e-9:
            return False
        if coarse < 0 and value > 0:
            return False
        if coarse > 0 and value < 0:
            return False
    return True
