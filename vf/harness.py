"""Process-wide setup shared by all property modules."""
from __future__ import annotations

import logging
import os
import sys

_DONE = False
REPO = os.environ.get("VERIF_REPO", "/repo")


def setup() -> None:
    """Put the repository under test first on sys.path, install the virtual clock, silence logs."""
    global _DONE
    if _DONE:
        return
    sys.dont_write_bytecode = True
    if REPO not in sys.path:
        sys.path.insert(0, REPO)
    import msmart  # noqa: F401
    here = os.path.realpath(os.path.dirname(msmart.__file__))
    want = os.path.realpath(os.path.join(REPO, "msmart"))
    if here != want:
        raise RuntimeError(f"msmart imported from {here}, expected {want}")
    from . import vloop
    vloop.install_clock()
    logging.disable(logging.CRITICAL)
    _DONE = True


def reset_library_globals() -> None:
    """State the library keeps at class level, reset per case."""
    from msmart.discover import Discover
    Discover._lock = None
    Discover._cloud = None
    root = logging.getLogger()
    for h in list(root.handlers):
        root.removeHandler(h)


class debug_logging:
    """Context manager: the library runs with DEBUG logging effective (as with the CLI's --debug), output discarded.
    Configuration matters: code guarded by isEnabledFor(DEBUG) or evaluated in log arguments only runs then."""

    def __enter__(self):
        self._lg = logging.getLogger("msmart")
        self._old = (self._lg.level, self._lg.propagate, list(self._lg.handlers))
        logging.disable(logging.NOTSET)
        self._lg.setLevel(logging.DEBUG)
        self._lg.propagate = False
        self._h = logging.NullHandler()
        self._lg.addHandler(self._h)
        return self

    def __exit__(self, *exc):
        self._lg.removeHandler(self._h)
        self._lg.setLevel(self._old[0])
        self._lg.propagate = self._old[1]
        logging.disable(logging.CRITICAL)
        return False
