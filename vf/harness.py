"""Process-wide setup shared by all property modules."""
from __future__ import annotations

import logging
import os
import sys

_DONE = False
REPO = os.environ.get("VERIF_REPO", "/repo")


def setup() -> None:
    """Put the repository under test first on sys.path, install the virtual clock, silence logs."""
    global _DONE
    if _DONE:
        return
    sys.dont_write_bytecode = True
    if REPO not in sys.path:
        sys.path.insert(0, REPO)
    import msmart  # noqa: F401
    here = os.path.realpath(os.path.dirname(msmart.__file__))
    want = os.path.realpath(os.path.join(REPO, "msmart"))
    if here != want:
        raise RuntimeError(f"msmart imported from {here}, expected {want}")
    from . import vloop
    vloop.install_clock()
    logging.disable(logging.CRITICAL)
    _DONE = True


def reset_library_globals() -> None:
    """State the library keeps at class level, reset per case."""
    from msmart.discover import Discover
    Discover._lock = None
    Discover._cloud = None
    root = logging.getLogger()
    for h in list(root.handlers):
        root.removeHandler(h)


class _FormatAndDiscard(logging.Handler):
    """Formats every record like a real handler would (so %-arguments are converted, __str__/__repr__ of logged objects
    run) and throws the text away.  A failure while formatting is kept for the check to look at."""

    def __init__(self) -> None:
        super().__init__()
        self.errors: list = []
        self.records = 0

    def emit(self, record: logging.LogRecord) -> None:
        self.records += 1
        try:
            self.format(record)
        except Exception as e:       # logging itself would print a traceback to stderr and go on
            self.errors.append(repr(e))


class debug_logging:
    """Context manager: the library runs with logging effective at `level` (DEBUG: as with the CLI's --debug; WARNING:
    Python's default configuration) and a handler that formats and discards the records.  Configuration matters: code
    guarded by isEnabledFor(), evaluated in log arguments, or run while a record is formatted only runs then."""

    def __init__(self, level: int = logging.DEBUG) -> None:
        self.level = level

    def __enter__(self):
        self._lg = logging.getLogger("msmart")
        self._old = (self._lg.level, self._lg.propagate, list(self._lg.handlers))
        logging.disable(logging.NOTSET)
        self._lg.setLevel(self.level)
        self._lg.propagate = False
        self._h = _FormatAndDiscard()
        self._lg.addHandler(self._h)
        self.handler = self._h
        return self

    def __exit__(self, *exc):
        self._lg.removeHandler(self._h)
        self._lg.setLevel(self._old[0])
        self._lg.propagate = self._old[1]
        logging.disable(logging.CRITICAL)
        return False


class strict_warnings:
    """Context manager: the host process runs with warnings raised as errors (python -W error, PYTHONWARNINGS=error, a test
    runner's filterwarnings=error) - limited to warnings attributed to the library's own modules, so the harness and its
    dependencies are unaffected."""

    def __init__(self, on: bool = True) -> None:
        self.on = on

    def __enter__(self):
        import warnings
        self._cm = warnings.catch_warnings()
        self._cm.__enter__()
        if self.on:
            warnings.filterwarnings("error", module=r"msmart(\.|$)")
        return self

    def __exit__(self, *exc):
        return self._cm.__exit__(*exc)
