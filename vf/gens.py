"""Hypothesis strategies shared by the property modules (constructive; no assume/filter in hot paths)."""
from __future__ import annotations

from hypothesis import strategies as st

from .model_ac import ACState


def device_ids(bits: int = 64):
    top = (1 << bits) - 1
    boundary = [0, 1, 0xFF, 0x100, 0xFFFF, 0x10000, 0xFFFFFFFF, 0x100000000, top, top - 1]
    boundary += [(1 << (8 * k)) - 1 for k in range(1, bits // 8 + 1)] + [(1 << (8 * k)) for k in range(1, bits // 8)]
    boundary = sorted({b for b in boundary if 0 <= b <= top})
    return st.one_of(st.sampled_from(boundary), st.integers(0, top), st.integers(1 << 32, top))


def marker_bytes(max_size: int = 255):
    """Byte strings biased to contain the packet markers."""
    piece = st.one_of(st.binary(min_size=0, max_size=24),
                      st.sampled_from([b"\x5a\x5a", b"\x83\x70", b"\x83", b"\x5a", b"\xaa", b"\x00", b"\xff", b"\x10" * 16]))
    return st.lists(piece, min_size=0, max_size=14).map(lambda ps: b"".join(ps)[:max_size])


def frames_bytes(max_size: int = 255):
    return st.one_of(st.binary(min_size=0, max_size=max_size), marker_bytes(max_size),
                     st.integers(0, max_size).flatmap(lambda n: st.binary(min_size=n, max_size=n)))


def keys32():
    return st.binary(min_size=32, max_size=32)


def tokens64():
    return st.binary(min_size=64, max_size=64)


SETPOINTS = [13.0 + 0.5 * i for i in range(62)]          # 13.0 .. 43.5
FAN_MEMBERS = [102, 100, 80, 60, 40, 20]
SWING_MEMBERS = [0x0, 0xC, 0x3, 0xF]


def settable_states():
    """A full settable state at the library's granularity (dict, JSON friendly)."""
    return st.fixed_dictionaries({
        "power": st.booleans(),
        "mode": st.integers(1, 6),
        "target": st.sampled_from(SETPOINTS),
        "fan": st.one_of(st.sampled_from(FAN_MEMBERS), st.integers(1, 102)),
        "swing": st.sampled_from(SWING_MEMBERS),
        "eco": st.booleans(),
        "turbo": st.booleans(),
        "sleep": st.booleans(),
        "fahrenheit": st.booleans(),
        "freeze": st.booleans(),
        "follow_me": st.booleans(),
        "purifier": st.booleans(),
        "humidity": st.integers(0, 100),
        "aux": st.integers(0, 2),
        "beep": st.booleans(),
    })


def device_states():
    """An arbitrary state of the model device (incl. fields that are not settable)."""
    return st.fixed_dictionaries({
        "power": st.booleans(),
        "mode": st.integers(1, 6),
        "target": st.sampled_from(SETPOINTS),
        "fan": st.one_of(st.sampled_from(FAN_MEMBERS), st.integers(1, 102)),
        "swing": st.sampled_from(SWING_MEMBERS),
        "eco": st.booleans(),
        "turbo": st.sampled_from([0, 1, 2, 3]),      # bit0 strong wind, bit1 tubro
        "sleep": st.booleans(),
        "fahrenheit": st.booleans(),
        "freeze": st.booleans(),
        "follow_me": st.booleans(),
        "purifier": st.booleans(),
        "humidity": st.integers(0, 100),
        "aux": st.integers(0, 2),
        "display_on": st.booleans(),
        "indoor_raw": st.one_of(st.integers(0, 255), st.just(0xFF)),
        "outdoor_raw": st.one_of(st.integers(0, 255), st.just(0xFF)),
        "indoor_tenths": st.integers(0, 9),
        "outdoor_tenths": st.integers(0, 9),
        "filter_alert": st.booleans(),
    })


def to_acstate(d: dict) -> ACState:
    s = ACState()
    s.power = d["power"]
    s.mode = d["mode"]
    s.target = d["target"]
    s.fan = d["fan"]
    s.swing = d["swing"]
    s.eco = d["eco"]
    t = d.get("turbo", 0)
    if isinstance(t, bool):
        t = 3 if t else 0
    s.strong_wind = bool(t & 1)
    s.tubro = bool(t & 2)
    s.sleep = d["sleep"]
    s.fahrenheit = d["fahrenheit"]
    s.freeze = d["freeze"]
    s.follow_me = d["follow_me"]
    s.purifier = d["purifier"]
    s.humidity = d["humidity"]
    aux = d.get("aux", 0)
    s.ptc = aux == 1
    s.independent_ptc = aux == 2
    for k in ("display_on", "indoor_raw", "outdoor_raw", "indoor_tenths", "outdoor_tenths", "filter_alert"):
        if k in d:
            setattr(s, k, d[k])
    return s


def cut_sets(max_len: int, max_cuts: int = 6):
    return st.lists(st.integers(1, max(1, max_len - 1)), min_size=0, max_size=max_cuts, unique=True).map(sorted)
