"""C12  Every emitted command is a well-formed, device-acceptable frame."""
from __future__ import annotations

import itertools
import random

from hypothesis import strategies as st

from .. import acutil, gens, vloop
from .. import refcodec as rc
from ..devsim import SimDevice
from .. import model_ac as M

ID = "C12"
LEVEL = "exploration"
SHARDS = {"quick": 8, "thorough": 16}
RULE = ("every Command subclass with every constructor/attribute value in its domain (GetState x 3 temperature types, "
        "GetCapabilities x 2 pages, ToggleDisplay x beep, energy, humidity, GetProperties over all 4096 subsets of the 12 "
        "property ids in several orders, SetProperties over every non-empty subset of the 9 encodable ids with generated "
        "values, SetState over C10's domain), one run of 70 000 (quick) / 200 000 (thorough) commands in a single process, sequences with refused writes (unsupported property ids: NotImplementedError, nothing emitted) in between, sequences of 300..700 mixed commands (constructed one by one or all constructed before the first is emitted), and every public AirConditioner operation "
        "against the model device under generated capability profiles (the unit protecting its own response bodies with CRC-8 or with the additive check), optionally with some commands left unanswered (the ids seen on the wire must still chain), or with two devices of the same process operated concurrently (the commands of both, in wire order, must chain). A third of the device histories run with logging configured as in a real application (WARNING or DEBUG level, records formatted). Command objects may also be constructed first and emitted in any order, and the same object more than once (every emission is a command). Oracle: strict independent frame parser (0xAA, length "
        "byte == len-1, appliance 0xAC, frame type 0x02 for the two write commands else 0x03, body = [documented command id ... "
        "message id, bitwise CRC-8], two's complement checksum), the model's conformance parser accepts the body, message ids "
        "advance by one modulo 256. Non-trivial: variable-length property commands, a sequence that wraps the id, or a device "
        "operation. Distinct by frame bytes minus id/CRC/checksum.")
ASSUMPTIONS = ["the process-wide message id counter is read, never reset, by the harness",
               "display toggle uses frame type 0x03 as the vendor does"]

ALL_PIDS = [0x0009, 0x000A, 0x0015, 0x0018, 0x001A, 0x0039, 0x0042, 0x0043, 0x0048, 0x004B, 0x00E3, 0x021E]
ENC_PIDS = [0x0009, 0x000A, 0x0018, 0x001A, 0x0039, 0x0042, 0x0043, 0x0048, 0x00E3]
EXPECT_ID = {"get_state": 0x41, "get_caps": 0xB5, "toggle": 0x41, "energy": 0x41, "humidity": 0x41, "get_props": 0xB1,
             "set_props": 0xB0, "set_state": 0x40}
EXPECT_TYPE = {"set_props": 0x02, "set_state": 0x02}


TWIN_STATE = {"power": True, "mode": 4, "target": 21.5, "fan": 60, "swing": 0xC, "eco": True, "turbo": False, "sleep": True, "fahrenheit": False,
              "freeze": False, "follow_me": True, "purifier": False, "humidity": 55, "aux": 1, "beep": True}


def build(spec: dict):
    """spec -> Command object (library)."""
    from msmart.device.AC import command as C
    k = spec["k"]
    if k == "get_state":
        c = C.GetStateCommand()
        c.temperature_type = C.TemperatureType(spec.get("tt", 2))
        return c
    if k == "get_caps":
        return C.GetCapabilitiesCommand(spec.get("additional", False))
    if k == "toggle":
        c = C.ToggleDisplayCommand()
        c.beep_on = spec.get("beep", True)
        return c
    if k == "energy":
        return C.GetEnergyUsageCommand()
    if k == "humidity":
        return C.GetHumidityCommand()
    if k == "get_props":
        return C.GetPropertiesCommand([C.PropertyId(p) for p in spec["ids"]])
    if k in ("set_props", "set_props_refused"):
        return C.SetPropertiesCommand({C.PropertyId(p): v for p, v in spec["props"]})
    if k == "set_state":
        s = spec["state"]
        c = C.SetStateCommand()
        c.beep_on = s["beep"]
        c.power_on = s["power"]
        c.target_temperature = s["target"]
        c.operational_mode = s["mode"]
        c.fan_speed = s["fan"]
        c.swing_mode = s["swing"]
        c.eco = s["eco"]
        c.turbo = s["turbo"]
        c.freeze_protection = s["freeze"]
        c.sleep = s["sleep"]
        c.fahrenheit = s["fahrenheit"]
        c.follow_me = s["follow_me"]
        c.purifier = s["purifier"]
        c.target_humidity = s["humidity"]
        c.aux_heat = s["aux"] == 1
        c.independent_aux_heat = s["aux"] == 2
        return c
    raise ValueError(k)


def verify_frame(frame: bytes, kind: str):
    """Strict structural oracle; returns None or (bucket, detail)."""
    try:
        p = rc.frame_parse(frame)
    except rc.RefError as e:
        return (f"frame/{str(e).split()[0]}", f"{kind}: strict parser rejects {frame.hex()}: {e}")
    if p.appliance != 0xAC:
        return ("frame/appliance", f"{kind}: appliance type {p.appliance:#x}")
    want_type = EXPECT_TYPE.get(kind, 0x03)
    if p.frame_type != want_type:
        return ("frame/type", f"{kind}: frame type {p.frame_type:#x}, documented {want_type:#x}")
    if p.body[0] != EXPECT_ID[kind]:
        return ("frame/command-id", f"{kind}: first body byte {p.body[0]:#x}")
    m = M.ModelAC()
    m.props = {pid: b"\x00" for pid in ALL_PIDS}
    m.handle(frame)
    if m.rejected:
        return ("device-rejects", f"{kind}: conformance parser rejects: {m.rejected[0][1]} frame={frame.hex()}")
    return None


def check_crc(case: dict):
    """The library's CRC-8 against the bitwise Dallas/Maxim definition."""
    import msmart.crc8 as libcrc
    data = bytes.fromhex(case["data"])
    got = libcrc.calculate(data)
    want = rc.crc8_bitwise(data)
    if got != want:
        return ("crc8", f"crc8.calculate({data.hex()}) = {got:#x}, bitwise CRC-8/MAXIM = {want:#x}")
    return None


def check_long(case: dict):
    from msmart.device.AC import command as C
    prev = None
    for i in range(case["n"]):
        cmd = C.GetStateCommand() if i % 3 else C.GetEnergyUsageCommand()
        f = cmd.tobytes()
        mid = f[-3]
        if prev is not None and mid != (prev + 1) % 256:
            return ("message-id", f"command #{i}: message id {mid} after {prev}")
        prev = mid
        if i % 997 == 0:
            v = verify_frame(f, "get_state" if i % 3 else "energy")
            if v:
                return v
    return None


def check_case(case: dict):
    if case.get("op") == "long":
        return check_long(case)
    if case.get("op") == "crc":
        return check_crc(case)
    if case.get("op") == "device":
        return check_device(case)
    specs = case["specs"]
    prev_id = None
    # "construct all, then emit" (what refresh() does with its command list) or "construct and emit one by one"
    prebuilt = [build(spec) for spec in specs] if (case.get("prebuild") or case.get("emit")) else None
    # emission order: by default each command once in construction order; "emit" lists indices into the prebuilt
    # commands (any order, a command object may be emitted more than once)
    order = [i % len(specs) for i in case["emit"]] if case.get("emit") else range(len(specs))
    for idx in order:
        spec = specs[idx]
        cmd = prebuilt[idx] if prebuilt is not None else build(spec)
        try:
            frame = cmd.tobytes()
        except NotImplementedError as e:
            if spec["k"] == "set_props_refused":
                continue         # a write the codec documents as unsupported: refused, nothing is emitted - the ids of what *is* emitted still chain
            return (f"tobytes/raises/{type(e).__name__}", f"{spec['k']}: {e!r}")
        except Exception as e:
            return (f"tobytes/raises/{type(e).__name__}", f"{spec['k']}: {e!r}")
        if spec["k"] == "set_props_refused":
            return ("refused-write-emitted", f"a property write the codec documents as unsupported produced a frame: {frame.hex()}")
        v = verify_frame(frame, spec["k"])
        if v:
            return v
        mid = frame[-3]
        if prev_id is not None and mid != (prev_id + 1) % 256:
            return ("message-id", f"message id {mid} after {prev_id} (command {spec['k']})")
        prev_id = mid
    return None


def check_device(case: dict):
    """Every public AirConditioner operation against the model; the model must reject nothing and ids must chain."""
    from msmart.device import AirConditioner as AC
    net = vloop.Net()
    res = {}

    async def main(loop):
        m = M.ModelAC()
        prof = case["profile"]
        if prof.get("check") == "sum":
            # a unit that protects its response bodies with the additive check instead of CRC-8 (both exist in the field); what
            # the library *sends* must keep its CRC-8 whatever the unit answers with
            m.check_style = "sum"
        recs = []
        if prof.get("energy"):
            recs.append(M.cap_record(0x0216, b"\x02"))
        if prof.get("humidity"):
            recs.append(M.cap_record(0x021F, b"\x02"))
        for pid, capid in ((0x0009, 0x0009), (0x000A, 0x000A), (0x0039, 0x0039), (0x0048, 0x0048), (0x0043, 0x0043), (0x0042, 0x0042),
                           (0x0018, 0x0018), (0x00E3, 0x00E3)):
            if pid in prof.get("props", []):
                recs.append(M.cap_record(capid, b"\x01"))
                m.props[pid] = bytes(12) if pid == 0x00E3 else b"\x00"
        split = prof.get("split", 0)
        if split and len(recs) > 1:
            m.cap_pages = [(recs[:split], b"\x01\x00"), (recs[split:], b"")]
        else:
            m.cap_pages = [(recs, b"")]
        dev = SimDevice(loop, version=2, device_id=3, ac=m)
        # some commands go unanswered (all their transmissions are lost): the ids of the following commands must still chain
        unanswered = set(case.get("unanswered", []))
        seen_frames: list = []

        def on_data(dev_, conn, frame):
            if not seen_frames or seen_frames[-1] != frame:
                seen_frames.append(frame)
            if (len(seen_frames) - 1) in unanswered:
                return ("drop",)
            return None
        dev.on_data = on_data
        net.listen("10.0.0.9", 6444, dev)
        ac = AC(ip="10.0.0.9", port=6444, device_id=3)
        wire: list = []
        if case.get("twin"):
            # two devices of the same process operated concurrently: the commands of both, in the order they reach the
            # wire, still carry consecutive ids (connections are established first, so nothing separates emission and write)
            import asyncio, copy
            m2 = M.ModelAC()
            m2.cap_pages, m2.props = copy.deepcopy(m.cap_pages), dict(m.props)
            dev2 = SimDevice(loop, version=2, device_id=4, ac=m2, latency=0.05 * case["twin"])
            net.listen("10.0.0.10", 6444, dev2)
            ac2 = AC(ip="10.0.0.10", port=6444, device_id=4)
            await ac.get_capabilities()
            await ac2.get_capabilities()
            res["m2"] = m2

            def tap(dev_, conn, frame):
                wire.append(frame)
                return None
            dev.on_data = tap
            dev2.on_data = tap


        async def run_ops(ac):
            for op in case["ops"]:
                if op == "refresh":
                    await ac.refresh()
                elif op == "caps":
                    await ac.get_capabilities()
                elif op == "apply":
                    await ac.apply()
                elif op == "toggle":
                    await ac.toggle_display()
                elif op == "clean":
                    await ac.start_self_clean()
                elif op == "set":
                    acutil.set_attrs(ac, case["state"])
                    if ac.supports_vertical_swing_angle:
                        ac.vertical_swing_angle = AC.SwingAngle.POS_3
                    if ac.supports_horizontal_swing_angle:
                        ac.horizontal_swing_angle = AC.SwingAngle.POS_5
                    if ac.supports_breezeless:
                        ac.breezeless = True
                    if ac.supports_ieco:
                        ac.ieco = True
                    if 0x0048 in prof.get("props", []):
                        ac.rate_select = AC.RateSelect.GEAR_50

        if case.get("twin"):
            await asyncio.gather(run_ops(ac), run_ops(ac2))
            ac2._lan._disconnect()
            res["tx"] = list(wire)
        else:
            await run_ops(ac)
            res["tx"] = [t[2] for t in dev.transmissions]
        res["m"] = m
        ac._lan._disconnect()

    if case.get("logging"):
        # logging configured as in a real application (Python's default WARNING level, or DEBUG), records formatted
        import logging
        from .. import harness
        with harness.debug_logging(logging.DEBUG if case["logging"] == "debug" else logging.WARNING):
            vloop.run(main, net)
    else:
        vloop.run(main, net)
    m = res["m"]
    if m.rejected or (res.get("m2") is not None and res["m2"].rejected):
        rej = m.rejected or res["m2"].rejected
        return ("device-rejects", f"model device rejected a frame during {case['ops']}: {rej[0][1]}")
    # ids on the wire, one per distinct command (retransmissions of an unanswered command repeat the same frame)
    ids = []
    last = None
    for f in res["tx"]:
        if f != last:
            ids.append(f[-3])
        last = f
    for a, b in zip(ids, ids[1:]):
        if b != (a + 1) % 256:
            return ("message-id", f"ids on the wire {ids} (unanswered commands: {sorted(case.get('unanswered', []))})")
    for f in res["tx"]:
        try:
            rc.frame_parse(f)
        except rc.RefError as e:
            return (f"frame/{str(e).split()[0]}", f"frame on the wire rejected by strict parser: {e}")
    if not ids and any(op != "set" for op in case["ops"]):
        return ("no-traffic", "no command reached the device")
    return None


def replay(ctx, case):
    return check_case(case)


def _stable_key(case) -> int:
    import json
    return hash(json.dumps(case, sort_keys=True))


def _run_one(ctx, case):
    if case.get("op") == "long":
        ctx.case(hash(("long", case["n"])), True, cls="long run")
        ctx.sample("long run", case)
        return check_long(case)
    if case.get("op") == "crc":
        ctx.case(hash(case["data"]), len(case["data"]) > 2, cls="crc8")
        ctx.sample("crc8", case)
        return check_crc(case)
    if case.get("op") == "device":
        ctx.case(_stable_key(case), True, cls="device-ops")
        ctx.sample("device-ops", case)
    else:
        kinds = {s["k"] for s in case["specs"]}
        nt = bool(kinds & {"get_props", "set_props"}) or len(case["specs"]) > 256
        ctx.case(_stable_key(case), nt, cls=("sequence" if len(case["specs"]) > 1 else case["specs"][0]["k"]))
        ctx.sample("sequence" if len(case["specs"]) > 1 else case["specs"][0]["k"], case if len(case["specs"]) < 6 else {"specs": case["specs"][:5], "truncated_from": len(case["specs"])})
    return check_case(case)


def run(ctx) -> None:
    rnd = random.Random(ctx.seed + 77)
    singles = []
    for tt in (0, 2, 3):
        singles.append({"k": "get_state", "tt": tt})
    for add in (False, True):
        singles.append({"k": "get_caps", "additional": add})
    for beep in (False, True):
        singles.append({"k": "toggle", "beep": beep})
    singles += [{"k": "energy"}, {"k": "humidity"}]
    # every subset of the 12 property ids (in sorted, reversed and one shuffled order)
    for mask in range(4096):
        ids = [p for i, p in enumerate(ALL_PIDS) if mask >> i & 1]
        singles.append({"k": "get_props", "ids": ids})
        if mask % 3 == 0:
            singles.append({"k": "get_props", "ids": list(reversed(ids))})
        if mask % 5 == 0:
            sh = ids[:]
            rnd.shuffle(sh)
            singles.append({"k": "get_props", "ids": sh})
    # every non-empty subset of the 9 encodable ids, values drawn
    for mask in range(1, 512):
        props = []
        for i, p in enumerate(ENC_PIDS):
            if mask >> i & 1:
                v = rnd.choice([0, 1, 2, 3, 4, 25, 50, 75, 100, 255, True, False, rnd.randrange(256)])
                props.append([p, v])
        singles.append({"k": "set_props", "props": props})
    for p in ENC_PIDS:
        for v in list(range(256)) + [True, False]:
            singles.append({"k": "set_props", "props": [[p, v]]})
    n = 0
    for spec in singles:
        n += 1
        if ctx.mine(n):
            case = {"specs": [spec]}
            ctx.check(case, lambda c: _run_one(ctx, c))
    ctx.sweep("command classes x parameters (incl. all 4096 property-id subsets, all 511 write subsets)", n, True)

    # the CRC-8 itself: every single byte (= every table entry), every byte after a non-zero prefix, and longer strings
    import hashlib
    k = 0
    for i in range(256):
        for data in (bytes([i]), bytes([0xB5, i]), bytes([i, i ^ 0xFF, 0x41]), hashlib.sha256(bytes([i])).digest()[: 1 + i % 32]):
            k += 1
            if ctx.mine(k):
                case = {"op": "crc", "data": data.hex()}
                ctx.check(case, lambda c: _run_one(ctx, c))
    ctx.sweep("crc8 over all single bytes and prefixes", k, True)

    # one very long run in a single process: more than 65 536 commands since import
    if ctx.shard == 0:
        case = {"op": "long", "n": 70000 if ctx.quick else 200000}
        ctx.check(case, lambda c: _run_one(ctx, c))

    # sequences that wrap the message id
    nseq = 5 if ctx.quick else 100
    for i in range(nseq):
        if not ctx.mine(i):
            continue
        r = random.Random(ctx.seed * 1000 + i)
        length = r.randint(300, 700)
        specs = [r.choice(singles[:9] + singles[9:400:7] + singles[-40::9]) for _ in range(length)]
        case = {"specs": specs, "prebuild": i % 2 == 1}
        if i % 3 == 2:
            # the commands are constructed first and emitted in another order, some of them more than once
            em = list(range(length)) + [r.randrange(length) for _ in range(length // 4)]
            r.shuffle(em)
            case = {"specs": specs[:120], "emit": em}
        ctx.check(case, lambda c: _run_one(ctx, c))
    ctx.sweep("id-wrapping sequences", nseq, True)
    # refused writes in between: a property write for an id the codec documents as unsupported raises NotImplementedError and emits
    # nothing; the ids of the commands that are emitted before and after it still advance by one
    unsupported = [p for p in ALL_PIDS if p not in ENC_PIDS]
    for j, pid in enumerate(unsupported):
        if ctx.mine(j + 7):
            ref = {"k": "set_props_refused", "props": [[pid, 1]]}
            mixed = {"k": "set_props_refused", "props": [[ENC_PIDS[0], 1], [pid, 1]]}
            specs = [singles[0], singles[1], ref, singles[2], ref, ref, singles[3], mixed, singles[4], singles[-1], ref] * 6
            ctx.check({"specs": specs, "prebuild": j % 2 == 1}, lambda c: _run_one(ctx, c))
    ctx.sweep("refused property writes between emitted commands", len(unsupported), True)
    # every command kind emitted three times from the same object, and in reverse construction order
    base = singles[:9] + singles[-3:]
    for j, em in enumerate(([i for i in range(len(base)) for _ in range(3)], list(range(len(base) - 1, -1, -1)), [0] * 300)):
        if ctx.mine(j):
            case = {"specs": base, "emit": em}
            ctx.check(case, lambda c: _run_one(ctx, c))
    # two devices operated concurrently, every capability profile family
    t = 0
    for energy in (False, True):
        for humidity in (False, True):
            for props in ([], [0x0009, 0x00E3], [0x0009, 0x000A, 0x0039, 0x0048, 0x0043, 0x00E3]):
                for twin in (1, 1.7):
                    t += 1
                    if ctx.mine(t):
                        case = {"op": "device", "profile": {"energy": energy, "humidity": humidity, "props": props, "split": 0, "check": ["crc", "sum"][t % 2]}, "state": dict(TWIN_STATE),
                                "ops": ["refresh", "set", "apply", "refresh", "toggle", "refresh"], "twin": twin}
                        ctx.check(case, lambda c: _run_one(ctx, c))
    ctx.sweep("two devices concurrently x capability profiles", t, True)
    # unanswered commands with logging configured as in a real application (records are formatted)
    u = 0
    for level in ("warning", "debug"):
        for unanswered in ([0], [1], [0, 1], [2], [1, 3], [0, 2, 4]):
            for ops in (["refresh", "refresh", "refresh"], ["refresh", "apply", "refresh"], ["caps", "refresh", "toggle", "refresh"], ["apply", "clean", "refresh"]):
                u += 1
                if ctx.mine(u):
                    case = {"op": "device", "profile": {"energy": u % 2 == 0, "humidity": u % 3 == 0, "props": [0x0009, 0x0039], "split": 0, "check": ["crc", "sum", "crc"][u % 3]}, "state": dict(TWIN_STATE),
                            "ops": ops, "unanswered": unanswered, "logging": level}
                    ctx.check(case, lambda c: _run_one(ctx, c))
    ctx.sweep("unanswered commands x logging level x operation lists", u, True)

    # set-state frames over C10's domain + device operations
    spec_state = gens.settable_states().flatmap(lambda s: st.tuples(st.integers(0, 127), st.integers(0, 127)).map(lambda fh: dict(s, fan=fh[0], humidity=fh[1])))
    cases = st.one_of(
        spec_state.map(lambda s: {"specs": [{"k": "set_state", "state": s}]}),
        st.lists(st.one_of(spec_state.map(lambda s: {"k": "set_state", "state": s}), st.sampled_from(singles[:9]),
                           st.lists(st.sampled_from(ALL_PIDS), unique=True, max_size=12).map(lambda ids: {"k": "get_props", "ids": ids})),
                 min_size=2, max_size=12).flatmap(lambda sp: st.one_of(
                     st.booleans().map(lambda pb: {"specs": sp, "prebuild": pb}),
                     st.lists(st.integers(0, len(sp) - 1), min_size=2, max_size=3 * len(sp)).map(lambda em: {"specs": sp, "emit": em}))))
    ctx.hyp("set_state+short sequences", cases, lambda c: _run_one(ctx, c), ctx.n(3000, 320000))

    profile = st.fixed_dictionaries({"energy": st.booleans(), "humidity": st.booleans(), "check": st.sampled_from(["crc", "crc", "sum"]),
                                     "props": st.lists(st.sampled_from([0x0009, 0x000A, 0x0039, 0x0048, 0x0043, 0x0042, 0x0018, 0x00E3]), unique=True, max_size=8),
                                     "split": st.integers(0, 3)})
    dev_cases = st.fixed_dictionaries({"op": st.just("device"), "profile": profile, "state": gens.settable_states(),
                                       "ops": st.lists(st.sampled_from(["refresh", "caps", "apply", "toggle", "clean", "set"]), min_size=1, max_size=8)},
                                      optional={"unanswered": st.lists(st.integers(0, 12), max_size=3, unique=True), "twin": st.sampled_from([0, 0, 1, 1.7, 0.4]),
                                                "logging": st.sampled_from([None, "warning", "debug"])}).map(
        lambda c: {k: v for k, v in c.items() if not (k == "unanswered" and c.get("twin"))})
    ctx.hyp("device-ops", dev_cases, lambda c: _run_one(ctx, c), ctx.n(1600, 64000))
