"""C20  CLI control applies the documented meaning of each setting=value pair."""
from __future__ import annotations

import asyncio
import contextlib
import hashlib
import itertools
import io
import sys

from hypothesis import strategies as st

from .. import acutil, gens, harness, vloop
from .. import model_ac as M
from ..devsim import SimDevice

ID = "C20"
LEVEL = "exploration"
SHARDS = {"quick": 8, "thorough": 16}
RULE = ("argv = control <host> [--capabilities] [--auto | --id N --token T --key K] + 1..3 setting=value pairs, run through msmart.cli.main() "
        "in-process on the virtual-time network against a V2 (or V3) model device in a generated initial state (optionally quick except for the acknowledgement of the display command, 0.3..1.9 s; optionally slow to answer the first state query, so that its answer to the repeated query arrives while the settings are being applied; its property-protocol settings at their defaults or all switched on). Valid pairs come "
        "from a table written from README lines 120-133: every writable setting; enumerations by member name in lower/upper/mixed "
        "case and by integer value (all members of all enums), raw integers 1..102 for fan_speed; numbers as int and float text "
        "incl. boundaries; booleans as True/False/true/false/TRUE/1/0; display_on equal to / different from the device's display. "
        "Oracle: exit status 0 and device final state == initial state overlaid with the documented meaning of each pair "
        "(property-protocol settings in the device's property store), exactly one display toggle iff display_on differs, "
        "unspecified settings as the device reported them. Invalid catalogue (unknown names, read-only properties, methods, "
        "non-member enum names/integers, non-numeric numbers, yes/on/maybe booleans, missing '=', empty value, mixed with valid "
        "pairs in any position, with and without --id/--token/--key and --capabilities): exit status != 0 (an uncaught exception counts as 1) and no connection attempt and no datagram. "
        "All (setting, member, case-style) triples exhaustively. Non-trivial: >= 2 pairs, or an enum by mixed-case name, or a raw "
        "fan integer, or display_on. Distinct by argv + initial state.")
ASSUMPTIONS = ["ambiguous inputs (beep=2, power_state=None, operational_mode=2.0) are in neither the valid table nor the invalid catalogue",
               "an uncaught exception out of main() is exit status 1 (interpreter behaviour)"]

TOKEN = hashlib.sha512(b"c20 token").digest()
KEY = hashlib.sha256(b"c20 key").digest()

ENUMS = {
    # every member *name* of each enumeration, aliases included (DEFAULT is an alias in each of them)
    "operational_mode": {"AUTO": 1, "COOL": 2, "DRY": 3, "HEAT": 4, "FAN_ONLY": 5, "SMART_DRY": 6, "DEFAULT": 5},
    "fan_speed": {"AUTO": 102, "MAX": 100, "HIGH": 80, "MEDIUM": 60, "LOW": 40, "SILENT": 20, "DEFAULT": 102},
    "swing_mode": {"OFF": 0, "VERTICAL": 0xC, "HORIZONTAL": 0x3, "BOTH": 0xF, "DEFAULT": 0},
    "vertical_swing_angle": {"OFF": 0, "POS_1": 1, "POS_2": 25, "POS_3": 50, "POS_4": 75, "POS_5": 100, "DEFAULT": 0},
    "horizontal_swing_angle": {"OFF": 0, "POS_1": 1, "POS_2": 25, "POS_3": 50, "POS_4": 75, "POS_5": 100, "DEFAULT": 0},
    "rate_select": {"OFF": 100, "GEAR_50": 50, "GEAR_75": 75, "LEVEL_1": 1, "LEVEL_2": 20, "LEVEL_3": 40, "LEVEL_4": 60, "LEVEL_5": 80, "DEFAULT": 100},
    "aux_mode": {"OFF": 0, "AUX_HEAT": 1, "AUX_ONLY": 2, "DEFAULT": 0},
}
BOOLS = ["beep", "power_state", "fahrenheit", "eco", "turbo", "freeze_protection", "sleep", "follow_me", "purifier", "ieco",
         "breezeless", "breeze_away", "breeze_mild", "display_on"]
BOOL_SPELLINGS = {"True": True, "False": False, "true": True, "false": False, "TRUE": True, "FALSE": False, "1": True, "0": False}
FIELD_OF = {"power_state": "power", "fahrenheit": "fahrenheit", "eco": "eco", "turbo": "turbo", "freeze_protection": "freeze", "sleep": "sleep",
            "follow_me": "follow_me", "purifier": "purifier"}
INVALID = ["foo=1", "targettemperature=20", "indoor_temperature=20", "outdoor_temperature=1", "supports_eco=True", "online=True", "supported=True",
           "supported_fan_speeds=1", "min_target_temperature=1", "filter_alert=True", "self_clean_active=True", "refresh=1", "apply=1", "to_dict=1",
           "get_capabilities=1", "FanSpeed=1", "_eco=True", "__class__=1", "operational_mode=warm", "operational_mode=9", "operational_mode=0",
           "swing_mode=1", "swing_mode=diagonal", "aux_mode=3", "rate_select=2", "vertical_swing_angle=pos_9", "target_temperature=hot",
           "target_humidity=wet", "operational_mode=2.5", "swing_mode=3.9", "aux_mode=1.2", "rate_select=50.5", "horizontal_swing_angle=25.7", "eco=yes", "eco=on", "turbo=maybe", "beep=off", "fan_speed", "eco", "eco=", "target_temperature=", "id=5",
           "ip=1.2.3.4", "token=00", "type=1", "name=x",
           # spellings float()/int() accept but Python literal syntax does not
           "target_temperature=nan", "target_temperature=NaN", "target_temperature=inf", "target_temperature=-inf", "target_temperature=Infinity",
           "target_temperature=+inf", "target_humidity=nan", "target_humidity=inf",
           "fan_speed=nan", "target_temperature=21j", "target_temperature=None", "target_temperature=[21]", "target_humidity=None", "target_humidity={}"]


def style(name: str, how: int) -> str:
    if how == 0:
        return name.lower()
    if how == 1:
        return name.upper()
    return "".join(c.upper() if i % 2 else c.lower() for i, c in enumerate(name))


def interpret(pairs: list):
    """Documented meaning of the pairs: returns (overlay on library-level state, property expectations, display target, beep)."""
    overlay, props, display, beep = {}, {}, None, None
    for name, how, val in pairs:
        if name in ENUMS:
            v = ENUMS[name][val] if how == "name" else val
            if name == "operational_mode":
                overlay["mode"] = v
            elif name == "fan_speed":
                overlay["fan"] = v
            elif name == "swing_mode":
                overlay["swing"] = v
            elif name == "aux_mode":
                overlay["aux"] = v
            else:
                props[name] = v
        elif name == "target_temperature":
            overlay["target"] = float(val)
        elif name == "target_humidity":
            overlay["humidity"] = int(float(val))
        elif name == "display_on":
            display = val
        elif name == "beep":
            beep = val
        elif name in FIELD_OF:
            overlay[FIELD_OF[name]] = val
        else:
            props[name] = val
    return overlay, props, display, beep


def argv_of(case: dict) -> list:
    argv = ["msmart-ng", "control", "10.0.0.9"]
    if case.get("capabilities"):
        argv.append("--capabilities")
    if case.get("auto"):
        argv.append("--auto")
    if case.get("version") == 3:
        argv += ["--id", "77", "--token", TOKEN.hex(), "--key", KEY.hex()]
    return argv + list(case["settings"])


def run_cli(case: dict):
    import msmart.cli as cli
    net = vloop.Net()
    holder = {}

    def on_loop(loop):
        m = M.ModelAC(gens.to_acstate(case["initial"]))
        m.props = {0x0009: b"\x00", 0x000A: b"\x00", 0x0048: b"\x64", 0x0043: b"\x01", 0x0042: b"\x01", 0x0018: b"\x00", 0x00E3: bytes([1, 0]) + bytes(10), 0x0039: b"\x00"}
        if case.get("props_on"):
            # the device currently has every property-protocol setting switched on (someone used the remote)
            m.props.update({0x0009: b"\x32", 0x000A: b"\x4b", 0x0048: b"\x28", 0x0043: b"\x04", 0x0042: b"\x02", 0x0018: b"\x00", 0x00E3: bytes([1, 1]) + bytes(10)})
        recs = [M.cap_record(c, b"\x01") for c in (0x0009, 0x000A, 0x0043, 0x00E3, 0x0039)] + [M.cap_record(0x0048, b"\x02"), M.cap_record(0x0210, b"\x07"),
                                                                                               M.cap_record(0x0210, b"\x01"), M.cap_record(0x0214, b"\x01"), M.cap_record(0x0215, b"\x01")]
        if case.get("caps_nocustom"):
            # a unit whose capabilities list discrete fan speeds only (0x0210 = 5); such units still report 101 ("fixed") or
            # other in-between values in some modes
            recs = [r for r in recs if r[:2] != bytes([0x10, 0x02])] + [M.cap_record(0x0210, b"\x05")]
        m.cap_pages = [(recs, b"")]
        dev = SimDevice(loop, version=case.get("version", 2), device_id=77, ac=m, token=TOKEN, key=KEY)
        net.listen("10.0.0.9", 6444, dev)
        if case.get("auto"):
            # --auto: the device is found through discovery (V2: no cloud needed)
            from .. import discsim
            h = {"ip": "10.0.0.9", "id": 77, "port": 6444, "sn": "S" * 32, "tt": 0xAC, "suffix": "AB12", "version": 2, "listen_port": 6445, "extra": ""}
            discsim.UdpWorld(net, [dict(ip=h["ip"], listen_port=6445, replies=[(0.05, 6445, discsim.good_reply(h))])])
        holder["m"], holder["dev"] = m, dev
        holder["before"] = m.state.copy()
        if case.get("b14") is not None and not m.state.display_on:
            # the unit reports its display as off (3-bit field = 7) with other bits of that byte set as well (0x7x: low nibble, 0xFx: bit 7)
            orig_frame = m.state_frame

            def framed(ft, _orig=orig_frame):
                m.state_overrides = {} if m.state.display_on else {14: case["b14"]}
                return _orig(ft)
            m.state_frame = framed
        if case.get("toggle_delay"):
            # the unit answers everything promptly except the display command, whose acknowledgement takes `toggle_delay` s (inside
            # the 2 s the client waits before repeating a request): the command is not idempotent, it must be sent once
            from .. import refcodec as rc2

            def on_toggle(dev_, conn, frame):
                try:
                    b = rc2.frame_parse(frame).body
                    is_toggle = b[0] == 0x41 and b[1] != 0x81 and b[4] == 0x02 and b[6] == 0x02
                except Exception:
                    is_toggle = False
                if is_toggle:
                    return ("answer", {"delay": case["toggle_delay"]})
                return None
            dev.on_data = on_toggle
        if case.get("late_dup"):
            # the unit is slow to answer the first state query (2.05 s: the client asks again after 2 s) and answers the repeated
            # query too: that second, identical report arrives `late_dup` s after the repeated query - while the CLI is already
            # applying the settings
            seen = {"n": 0}
            from .. import refcodec as rc

            def on_data(dev_, conn, frame):
                try:
                    b = rc.frame_parse(frame).body
                    is_state_query = b[0] == 0x41 and b[1] == 0x81
                except Exception:
                    is_state_query = False
                if not is_state_query:
                    return None
                seen["n"] += 1
                if seen["n"] == 1:
                    return ("answer", {"delay": 2.05})
                if seen["n"] == 2:
                    return ("answer", {"delay": case["late_dup"]})
                return None
            dev.on_data = on_data

    harness.reset_library_globals()
    policy = vloop.VPolicy(lambda: net, on_loop)
    old_argv = sys.argv
    status = None
    exc = None
    asyncio.set_event_loop_policy(policy)
    try:
        sys.argv = argv_of(case)
        with contextlib.redirect_stderr(io.StringIO()), contextlib.redirect_stdout(io.StringIO()):
            try:
                cli.main()
                status = 0
            except SystemExit as e:
                status = e.code if isinstance(e.code, int) else (0 if e.code is None else 1)
            except BaseException as e:     # the interpreter would print a traceback and exit 1
                status = 1
                exc = e
    finally:
        sys.argv = old_argv
        asyncio.set_event_loop_policy(None)
        vloop.CURRENT = None
        for lp in policy.loops:
            if not lp.is_closed():
                lp.close()
        harness.reset_library_globals()
    return status, exc, net, holder


def check_case(case: dict):
    v = _check_once(case)
    if v is not None and case.get("late_dup") and case.get("capabilities") and case["kind"] == "valid":
        # root-cause classification (recorded finding, same root cause as C01's): the late duplicate report is taken as the answer to the
        # capability query, so the CLI works with the wrong capabilities.  Only when the failure needs both the late report and
        # --capabilities is it this finding.
        if _check_once({k: x for k, x in case.items() if k != "late_dup"}) is None and _check_once(dict(case, capabilities=False)) is None:
            return ("late-report-answers-capability-query", "a late duplicate of the unit's state report is taken as the answer to the capability query of "
                    f"msmart-ng control --capabilities, and the settings are applied with the wrong capabilities: {v[0]}: {v[1]}")
    return v


def _check_once(case: dict):
    status, exc, net, holder = run_cli(case)
    if case["kind"] == "invalid":
        if status == 0:
            return ("invalid/accepted", f"argv {case['settings']} exited 0")
        if net.tcp_attempts or net.udp_sent:
            return ("invalid/traffic", f"argv {case['settings']} was rejected (status {status}) only after traffic: tcp {net.tcp_attempts[:2]} udp {len(net.udp_sent)}")
        return None
    m = holder.get("m")
    if status != 0:
        return (f"valid/status-{status}", f"argv {case['settings']} exited {status} ({exc!r})")
    if m is None:
        return ("valid/no-device", "event loop never created")
    if m.rejected:
        return ("valid/device-rejects", f"{m.rejected[0][1]}")
    overlay, props, display, beep = interpret(case["pairs"])
    before = holder["before"]
    exp = acutil.expected_attrs_from_model(before)
    exp.update(overlay)
    exp.pop("display_on")
    exp.pop("filter_alert")
    only_display = not overlay and not props and beep is None
    want_toggles = 1 if (display is not None and display != before.display_on) else 0
    if m.display_toggles != want_toggles:
        return ("valid/display-toggle", f"{m.display_toggles} display toggles, expected {want_toggles} (display_on={display}, device had {before.display_on})")
    want_display = before.display_on if display is None else display
    if m.state.display_on != want_display:
        return ("valid/display", f"display {m.state.display_on}, expected {want_display}")
    got = acutil.expected_attrs_from_model(m.state)
    got.pop("display_on")
    got.pop("filter_alert")
    if only_display:
        if m.control_bodies or m.prop_writes:
            return ("valid/spurious-apply", "display-only command sent a state/property write")
    else:
        for k, v in exp.items():
            if got[k] != v:
                if (k == "fan" and "fan" not in overlay and case.get("capabilities") and case.get("caps_nocustom") and want_toggles == 1
                        and before.fan not in ENUMS["fan_speed"].values()):
                    # (recorded finding: the refresh that follows a display toggle re-reads the state after the capabilities are
                    # known and maps the reported in-between fan speed to AUTO, which is then written back)
                    return ("valid/state/fan/after-display-toggle-without-custom-fan", f"fan: device has {got[k]!r}, expected {v!r} after {case['settings']} --capabilities (initial {before.fan!r})")
                return (f"valid/state/{k}", f"{k}: device has {got[k]!r}, expected {v!r} after {case['settings']} (initial {getattr(before, k, None)!r})")
        if len(m.control_bodies) != 1:
            return ("valid/apply-count", f"{len(m.control_bodies)} state commands")
        if beep is not None and m.state.buzzer != beep:
            return ("valid/beep", f"buzzer {m.state.buzzer}, expected {beep}")
    caps = bool(case.get("capabilities"))
    breeze = [(n, v) for n, v in props.items() if n in ("breezeless", "breeze_away", "breeze_mild")]
    if len(breeze) >= 2:
        # several breeze settings on one line (at most one of them True, and that one last): the unit ends in the one requested mode (or off),
        # and every property written for them agrees with it
        codes = {"breeze_away": 2, "breeze_mild": 3, "breezeless": 4}
        trues = [n for n, v in breeze if v]
        mode = codes[trues[0]] if trues else 1
        for name, v in breeze:
            if caps or name == "breeze_mild":
                pid, want = 0x0043, bytes([mode])
            elif name == "breeze_away":
                pid, want = 0x0042, bytes([2 if mode == 2 else 1])
            else:
                pid, want = 0x0018, bytes([1 if mode == 4 else 0])
            if m.props.get(pid) != want:
                return (f"valid/property/{name}", f"{case['settings']}: device property {pid:#06x} is {m.props.get(pid).hex()}, expected {want.hex()} (requested breeze mode {mode})")
        props = {n: v for n, v in props.items() if n not in codes}
    for name, v in props.items():
        if name == "vertical_swing_angle":
            pid, want = 0x0009, bytes([v])
        elif name == "horizontal_swing_angle":
            pid, want = 0x000A, bytes([v])
        elif name == "rate_select":
            pid, want = 0x0048, bytes([v])
        elif name == "ieco":
            pid, want = 0x00E3, bytes([1, 1 if v else 0]) + bytes(10)
        elif name in ("breezeless", "breeze_away", "breeze_mild"):
            code = {"breeze_away": 2, "breeze_mild": 3, "breezeless": 4}[name]
            if caps or name == "breeze_mild":
                pid, want = 0x0043, bytes([code if v else 1])
            elif name == "breeze_away":
                pid, want = 0x0042, bytes([2 if v else 1])
            else:
                pid, want = 0x0018, bytes([1 if v else 0])
        else:
            continue
        if m.props.get(pid) != want:
            return (f"valid/property/{name}", f"{name}={v}: device property {pid:#06x} is {m.props.get(pid).hex()}, expected {want.hex()}")
    return None


def replay(ctx, case):
    return check_case(case)


def _run_one(ctx, case):
    import json
    if case["kind"] == "invalid":
        nt = True
        cls = "invalid"
    else:
        pairs = case["pairs"]
        nt = len(pairs) >= 2 or any(p[0] == "display_on" for p in pairs) or any(p[0] == "fan_speed" and p[1] == "int" and p[2] not in ENUMS["fan_speed"].values() for p in pairs) \
            or any(s.split("=")[1] not in (s.split("=")[1].lower(), s.split("=")[1].upper()) for s in case["settings"])
        cls = "valid/" + ("v3" if case.get("version") == 3 else "v2") + ("/caps" if case.get("capabilities") else "") + ("/auto" if case.get("auto") else "")
    ctx.case(hash(json.dumps(case, sort_keys=True)), nt, cls=cls)
    ctx.sample(cls, {k: v for k, v in case.items() if k != "initial"})
    return check_case(case)


DEFAULT_INITIAL = {"power": True, "mode": 2, "target": 22.0, "fan": 80, "swing": 0, "eco": False, "turbo": 0, "sleep": False, "fahrenheit": False,
                   "freeze": False, "follow_me": False, "purifier": False, "humidity": 45, "aux": 0, "display_on": True, "indoor_raw": 92,
                   "outdoor_raw": 104, "indoor_tenths": 0, "outdoor_tenths": 0, "filter_alert": False}


def pair_strategy():
    enum_by_name = st.sampled_from(sorted(ENUMS)).flatmap(lambda n: st.tuples(st.just(n), st.sampled_from(sorted(ENUMS[n])), st.integers(0, 2)).map(
        lambda t: ((t[0], "name", t[1]), f"{t[0]}={style(t[1], t[2])}")))
    enum_by_int = st.sampled_from(sorted(ENUMS)).flatmap(lambda n: st.sampled_from(sorted(ENUMS[n].values())).map(lambda v: ((n, "int", v), f"{n}={v}")))
    fan_raw = st.integers(1, 102).map(lambda v: (("fan_speed", "int", v), f"fan_speed={v}"))
    temp = st.sampled_from(gens.SETPOINTS).flatmap(lambda t: st.sampled_from([0, 1]).map(
        lambda f, t=t: (("target_temperature", "num", t), f"target_temperature={int(t) if (f and t == int(t)) else t}")))
    hum = st.integers(0, 100).map(lambda h: (("target_humidity", "num", h), f"target_humidity={h}"))
    boolean = st.tuples(st.sampled_from(BOOLS), st.sampled_from(sorted(BOOL_SPELLINGS))).map(lambda t: ((t[0], "bool", BOOL_SPELLINGS[t[1]]), f"{t[0]}={t[1]}"))
    return st.one_of(enum_by_name, enum_by_int, fan_raw, temp, hum, boolean, boolean)


def _mk_valid(pairs_settings, initial, caps, version, auto=False, props_on=False, nocustom=False, late_dup=None):
    # one pair per setting name (later duplicates dropped): the documented meaning of repeated settings is not specified
    seen, pairs, settings = set(), [], []
    breeze_true = False
    for p, s in pairs_settings:
        if p[0] in seen:
            continue
        if p[0].startswith("breeze"):
            if breeze_true:
                continue          # a breeze setting after one that switched a mode on: two modes on contradict each other, and
                                  # whether a later "other mode off" leaves the first one on is not documented
            breeze_true = bool(p[2])
        seen.add(p[0])
        pairs.append(list(p))
        settings.append(s)
    case = {"kind": "valid", "pairs": pairs, "settings": settings, "initial": initial, "capabilities": caps, "version": version,
            "auto": bool(auto) and version == 2, "props_on": props_on}
    if nocustom and caps:
        case["caps_nocustom"] = True
    if late_dup and version == 2 and not case["auto"] and not any(p[0] == "display_on" for p in pairs):
        case["late_dup"] = late_dup
    elif late_dup and any(p[0] == "display_on" for p in pairs):
        case["toggle_delay"] = [0.8, 1.5, 1.9, 0.45][int(late_dup * 100) % 4]
    return case


def run(ctx) -> None:
    n = 0
    # exhaustive: every (setting, member, case style) and every member integer, every boolean spelling of every boolean setting
    for name in sorted(ENUMS):
        for member, value in sorted(ENUMS[name].items()):
            for how in (0, 1, 2):
                n += 1
                if ctx.mine(n):
                    case = _mk_valid([((name, "name", member), f"{name}={style(member, how)}")], DEFAULT_INITIAL, n % 2 == 0, 2, False, n % 3 == 0)
                    ctx.check(case, lambda c: _run_one(ctx, c))
            n += 1
            if ctx.mine(n):
                case = _mk_valid([((name, "int", value), f"{name}={value}")], DEFAULT_INITIAL, n % 2 == 0, 2 + (n % 5 == 0), False, n % 3 != 0)
                ctx.check(case, lambda c: _run_one(ctx, c))
    for b in BOOLS:
        for sp, val in sorted(BOOL_SPELLINGS.items()):
            for disp in (True, False):
                n += 1
                if ctx.mine(n):
                    case = _mk_valid([((b, "bool", val), f"{b}={sp}")], dict(DEFAULT_INITIAL, display_on=disp), n % 2 == 0, 2, False, n % 2 == 1)
                    ctx.check(case, lambda c: _run_one(ctx, c))
    for v in range(1, 103):
        n += 1
        if ctx.mine(n):
            case = _mk_valid([(("fan_speed", "int", v), f"fan_speed={v}")], DEFAULT_INITIAL, False, 2)
            ctx.check(case, lambda c: _run_one(ctx, c))
    for t in gens.SETPOINTS:
        n += 1
        if ctx.mine(n):
            case = _mk_valid([(("target_temperature", "num", t), f"target_temperature={t}")], DEFAULT_INITIAL, False, 2)
            ctx.check(case, lambda c: _run_one(ctx, c))
    for bad in INVALID:
        for pos in (0, 1):
            n += 1
            if ctx.mine(n):
                settings = [bad] if pos == 0 else ["eco=True", bad]
                case = {"kind": "invalid", "settings": settings, "initial": DEFAULT_INITIAL, "capabilities": n % 3 == 0, "version": 2 + (n % 2)}
                ctx.check(case, lambda c: _run_one(ctx, c))
    ctx.sweep("every (setting, member, case style), member integer, boolean spelling, raw fan integer, setpoint; invalid catalogue", n, True)
    # pairs of breeze settings (at most one switched on), both orders, with and without --capabilities
    z = 0
    for a, b in itertools.permutations(["breeze_away", "breeze_mild", "breezeless"], 2):
        for va, vb in ((False, True), (False, False)):
            for caps in (False, True):
                z += 1
                if ctx.mine(z):
                    case = _mk_valid([((a, "bool", va), f"{a}={va}"), ((b, "bool", vb), f"{b}={vb}")], DEFAULT_INITIAL, caps, 2, False, z % 2 == 0)
                    ctx.check(case, lambda c: _run_one(ctx, c))
    # --capabilities against a unit without custom fan speeds that reports an in-between fan speed: unspecified settings stay
    for fan in (101, 50, 1, 99, 80, 102):
        for setting in ("eco=True", "target_temperature=25.5", "power_state=False", "display_on=True", "display_on=False", "beep=True"):
            z += 1
            if ctx.mine(z):
                name, val = setting.split("=")
                kind = "num" if name == "target_temperature" else "bool"
                pv = float(val) if kind == "num" else (val == "True")
                case = _mk_valid([((name, kind, pv), setting)], dict(DEFAULT_INITIAL, fan=fan, display_on=True), True, 2, False, False, True)
                ctx.check(case, lambda c: _run_one(ctx, c))
                if name != "display_on":
                    # ... and together with a display change (one that toggles, one that does not)
                    for disp in (False, True):
                        case = _mk_valid([((name, kind, pv), setting), (("display_on", "bool", disp), f"display_on={disp}")],
                                         dict(DEFAULT_INITIAL, fan=fan, display_on=True), True, 2, False, False, True)
                        ctx.check(case, lambda c: _run_one(ctx, c))
    # a property-protocol setting together with a state setting, against a unit whose first answer is slow and whose answer to the
    # repeated query lands while the settings are being applied
    for pa in ((("ieco", "bool", True), "ieco=True"), (("vertical_swing_angle", "name", "POS_3"), "vertical_swing_angle=pos_3"), (("rate_select", "name", "LEVEL_3"), "rate_select=level_3"),
               (("breezeless", "bool", True), "breezeless=True")):
        for pb in ((("power_state", "bool", False), "power_state=False"), (("target_temperature", "num", 27.5), "target_temperature=27.5"), (("operational_mode", "name", "HEAT"), "operational_mode=heat"),
                   (("fan_speed", "int", 33), "fan_speed=33"), (("eco", "bool", True), "eco=True")):
            for late in (0.06, 0.07, 0.1, 0.12, 0.2):
                for order in (0, 1):
                    z += 1
                    if ctx.mine(z):
                        prs = [pa, pb] if order == 0 else [pb, pa]
                        case = _mk_valid(prs, dict(DEFAULT_INITIAL, power=True), z % 2 == 0, 2, False, False, False, late)
                        ctx.check(case, lambda c: _run_one(ctx, c))
    # a display change against a unit that is quick except for the acknowledgement of the display command
    for disp in (True, False):
        for delay in (0.3, 0.45, 0.8, 1.5, 1.9):
            for extra in (None, (("eco", "bool", True), "eco=True")):
                for caps in (False, True):
                    z += 1
                    if ctx.mine(z):
                        prs = [(("display_on", "bool", disp), f"display_on={disp}")] + ([extra] if extra else [])
                        case = _mk_valid(prs, dict(DEFAULT_INITIAL, display_on=not disp), caps, 2)
                        case["toggle_delay"] = delay
                        ctx.check(case, lambda c: _run_one(ctx, c))
    # the display is off and the byte carrying it has other bits set: display_on=1 toggles once, display_on=0 does not toggle
    for b14 in (0x70, 0x71, 0x7F, 0xF0, 0xF5, 0xFF):
        for disp in (True, False):
            for extra in (None, (("eco", "bool", True), "eco=True")):
                z += 1
                if ctx.mine(z):
                    prs = [(("display_on", "bool", disp), f"display_on={disp}")] + ([extra] if extra else [])
                    case = _mk_valid(prs, dict(DEFAULT_INITIAL, display_on=False), z % 2 == 0, 2)
                    case["b14"] = b14
                    ctx.check(case, lambda c: _run_one(ctx, c))
    ctx.sweep("breeze pairs; --capabilities on a unit without custom fan speeds x reported fan speeds; property + state setting x late duplicate report; slow display acknowledgement; display-off byte values", z, True)

    valid = st.builds(_mk_valid, st.lists(pair_strategy(), min_size=1, max_size=3), gens.device_states(), st.booleans(), st.sampled_from([2, 2, 3]),
                      st.sampled_from([False, False, True]), st.booleans(), st.sampled_from([False, False, True]), st.sampled_from([None, None, None, 0.06, 0.07, 0.1, 0.2]))
    ctx.hyp("valid argv", valid, lambda c: _run_one(ctx, c), ctx.n(3200, 128000))
    invalid = st.tuples(st.lists(pair_strategy().map(lambda t: t[1]), max_size=2), st.sampled_from(INVALID), st.integers(0, 2)).map(
        lambda t: {"kind": "invalid", "settings": (t[0][:t[2]] + [t[1]] + t[0][t[2]:]), "initial": DEFAULT_INITIAL, "capabilities": t[2] == 1,
                   "version": 2 + (len(t[1]) % 2), "auto": len(t[1]) % 2 == 0 and len(t[0]) % 2 == 1})
    ctx.hyp("invalid argv", invalid, lambda c: _run_one(ctx, c), ctx.n(1200, 48000))
