"""C18  Discovery: one device per host; bad responders cannot spoil the rest."""
from __future__ import annotations

import itertools

from hypothesis import strategies as st

from .. import discsim, harness, vloop
from .. import refcodec as rc
from ..devsim import SimDevice
from ..model_ac import ModelAC

ID = "C18"
LEVEL = "exploration"
SHARDS = {"quick": 8, "thorough": 16}
RULE = ("(a well-formed host may answer the two probes in different reply formats, V2 and V3; well-formed hosts may carry an address inside their reply that differs from the one they answer from: another host's, 0.0.0.0, a foreign one) up to 4 hosts; each good host sends 1..6 identical well-formed replies from ports {6445, 20086}; each bad host sends "
        "replies of one bad class (random bytes incl. ones starting 5A5A / 8370, valid envelope with the body cut at every length "
        "0..45, non-UTF-8 serial or name, name without separators / non-hex type / wrong name length, bad PKCS#7 under the fixed "
        "key, V3 wrapper too short, XML without body/device, without attributes, with non-numeric or unreachable port, empty "
        "datagram). Arrival order: every interleaving when total replies <= 6 (exhaustive part), random permutations with delays "
        "otherwise. The probe goes to the limited broadcast or to a directed (subnet) broadcast address. Oracle: Discover.discover() returns without raising and the multiset of returned addresses equals the set of "
        "good hosts, each exactly once, with the identity of C17; with auto_connect a V2 host backed by a model device is online. "
        "Non-trivial: >= 1 bad host together with >= 1 good host, or >= 2 replies from one host interleaved with another host's. "
        "Distinct by (hosts, order).")
ASSUMPTIONS = ["a V1 (XML) responder whose advertised TCP port refuses connections counts as a bad responder"]


GOOD_IPS = ["10.0.0.10", "10.0.0.11", "192.168.1.12", "100.64.0.13", "172.32.0.14", "8.8.4.15", "169.254.7.16", "198.18.0.17"]


def _good_host(i: int, version: int, tt: int = 0xAC, wide: bool = False) -> dict:
    return {"ip": GOOD_IPS[i % len(GOOD_IPS)] if wide else f"10.0.0.{10 + i}", "id": 0x10203040 + i * 0x1000001, "port": 6444, "sn": f"SN{i:030d}", "tt": tt, "suffix": f"A{i}B", "version": version,
            "listen_port": [6445, 20086][i % 2], "extra": bytes(16).hex()}


def check_case(case: dict):
    from msmart.discover import Discover
    hosts = case["hosts"]
    order = case["order"]            # list of host indices: arrival order of the individual replies
    net = vloop.Net()
    res = {}

    async def main(loop):
        harness.reset_library_globals()
        per_host = {i: [] for i in range(len(hosts))}
        for pos, hi in enumerate(order):
            h = hosts[hi]
            k = len(per_host[hi])
            if h["good"]:
                # a host may answer the two probes in different formats (a V3 unit also sending a bare V2-format reply)
                payload = discsim.good_reply(dict(h, version=h["alt"]) if (h.get("alt") and k % 2 == 1) else h)
            else:
                payload = discsim.bad_reply(h["kind"], h["args"][k % len(h["args"])], h["ip"])
            delay = 0.01 + pos * case.get("spacing", 0.001) + pos * 1e-6       # (arrival order = `order`, also for spacing 0)
            if case.get("pause") and pos >= case["pause"][0]:
                delay += case["pause"][1]        # the replies from this position on come after a silence (slow responders)
                delay = min(delay, 4.8 + pos * 1e-4)      # (still well inside the 5 s timeout)
            per_host[hi].append((delay, [6445, 20086][(pos + hi) % 2], payload))
        routes = {"10.255.255.255": [h["ip"] for h in hosts]} if (case.get("target") == "directed" or case.get("api") == "single") else {}
        world = discsim.UdpWorld(net, [dict(ip=h["ip"], listen_port=h.get("listen_port", 6445), replies=per_host[i]) for i, h in enumerate(hosts)], routes)
        for i, h in enumerate(hosts):
            if not h["good"] and h["kind"] == "xml" and h.get("v1_info") is not None:
                # a legacy unit whose info port accepts the connection and answers (well-formed XML, something else, nothing)
                net.listen(h["ip"], 6443, discsim.V1InfoServer(loop, None if h["v1_info"] == "" else bytes.fromhex(h["v1_info"]), then=h.get("v1_then")))
        auto = bool(case.get("auto_connect")) and (case.get("cloud") or not any(h["good"] and h["version"] == 3 for h in hosts))   # V3 auto-connect needs the cloud
        auto = auto and not any(h.get("alt") for h in hosts)      # (a host answering in both formats is not backed by a model device)
        kw = {}
        if auto:
            for h in hosts:
                if h["good"] and h["version"] == 2 and h["tt"] == 0xAC:
                    net.listen(h["ip"], h["port"], SimDevice(loop, version=2, device_id=h["id"] & 0xFFFFFFFFFFFF, ac=ModelAC()))
            if case.get("cloud"):
                # V3 hosts are backed by model devices holding the credentials the model cloud hands out for their id
                from msmart.cloud import NetHomePlusCloud
                from ..model_cloud import ModelCloud, creds_for
                mc = ModelCloud(dict(NetHomePlusCloud.CLOUD_CREDENTIALS.values()))
                kw["get_async_client"] = mc.client_factory()
                for h in hosts:
                    if h["good"] and h["version"] == 3:
                        t, k = creds_for(rc.udpid((h["id"] & 0xFFFFFFFFFFFF).to_bytes(6, "little")).hex())
                        net.listen(h["ip"], h["port"], SimDevice(loop, version=3, device_id=h["id"] & 0xFFFFFFFFFFFF, token=bytes.fromhex(t), key=bytes.fromhex(k), ac=ModelAC()))
        try:
            if case.get("api") == "single":
                # the single-device entry point, pointed at an address several hosts answer for: it reports one device
                d = await Discover.discover_single("10.255.255.255", auto_connect=auto, timeout=5, **kw)
                res["single"] = d
                res["devices"] = [d] if d is not None else []
            elif case.get("target") == "directed":
                res["devices"] = await Discover.discover(target="10.255.255.255", auto_connect=auto, timeout=5, **kw)
            else:
                res["devices"] = await Discover.discover(auto_connect=auto, timeout=5, **kw)
        except BaseException as e:
            res["exc"] = e
        # (an exception out of datagram_received() is fatal for the datagram endpoint: asyncio closes it and every later reply is lost;
        # one out of the data_received() of a legacy unit's info connection only ends that connection)
        res["cb"] = [str(c.get("exception")) for c in loop.callback_exceptions if c.get("message") == "datagram_received raised"]

    _, loop = vloop.run(main, net)
    if "exc" in res:
        e = res["exc"]
        return (f"raises/{type(e).__name__}", f"discover() raised {e!r} with hosts {[(h['ip'], 'good' if h['good'] else h['kind']) for h in hosts]}")
    if res["cb"]:
        return ("callback-exception", f"exception inside the datagram callback: {res['cb'][:2]}")
    devs = res["devices"]
    got = sorted(d.ip for d in devs)
    replied = {hosts[hi]["ip"] for hi in order}
    want = sorted(h["ip"] for h in hosts if h["good"] and h["ip"] in replied)
    if case.get("api") == "single":
        if want and (len(got) != 1 or got[0] not in want):
            return ("single/result", f"discover_single reported {got} although well-formed hosts {want} answered; hosts {[(h['ip'], 'good' if h['good'] else h['kind']) for h in hosts]} order {order}")
        if not want and got:
            return ("single/result", f"discover_single reported {got}, no well-formed host answered")
    elif got != want:
        return ("result-set", f"reported {got}, good responders {want}; hosts {[(h['ip'], 'good' if h['good'] else h['kind']) for h in hosts]} order {order}")
    for d in devs:
        h = next(x for x in hosts if x["ip"] == d.ip)
        name = discsim.host_name(h["tt"], h["suffix"])
        if (d.port, d.id, d.sn, d.name, int(d.type)) != (h["port"], h["id"] & 0xFFFFFFFFFFFF, h["sn"], name, h["tt"]) or d.version not in (h["version"], h.get("alt", h["version"])):
            return ("identity", f"host {d.ip} reported with {(d.port, d.id, d.sn, d.name, int(d.type), d.version)}")
        if any(x.get("alt") for x in hosts):
            continue
        if case.get("auto_connect") and not any(x["good"] and x["version"] == 3 for x in hosts) and h["version"] == 2 and h["tt"] == 0xAC and not d.online:
            return ("auto-connect/offline", f"V2 host {d.ip} backed by a responsive device is reported offline")
        if case.get("auto_connect") and case.get("cloud") and h["tt"] == 0xAC and not h.get("reported_ip") and not d.online:
            return ("auto-connect/offline", f"host {d.ip} (version {h['version']}) backed by a responsive device is reported offline")
    return None


def replay(ctx, case):
    return check_case(case)


def _nt(case) -> bool:
    hosts, order = case["hosts"], case["order"]
    present = {hi for hi in order}
    if any(not hosts[i]["good"] for i in present) and any(hosts[i]["good"] for i in present):
        return True
    # two replies of one host with another host's reply in between
    for hi in present:
        idx = [p for p, x in enumerate(order) if x == hi]
        if len(idx) >= 2 and any(order[p] != hi for p in range(idx[0], idx[-1])):
            return True
    return False


def _run_one(ctx, case):
    import json
    ctx.case(hash(json.dumps(case, sort_keys=True)), _nt(case), cls=f"hosts={len(case['hosts'])}/replies={min(len(case['order']), 8)}")
    for h in case["hosts"]:
        ctx.label("bad:" + h["kind"] if not h["good"] else "good host")
    ctx.sample("+".join(sorted({("good" if h["good"] else h["kind"]) for h in case["hosts"]}))[:60], case)
    return check_case(case)


def _bad_host(i: int, kind: str, args: list) -> dict:
    return {"ip": f"10.0.9.{i + 1}", "good": False, "kind": kind, "args": args, "listen_port": [6445, 20086][i % 2]}


def _args_for(kind: str, rnd_bytes) -> list:
    if kind in ("random", "random5a", "random83"):
        return [rnd_bytes(n).hex() for n in (0, 1, 4, 30, 60, 104)]
    if kind == "cut":
        return list(range(0, 46))      # 46..51 cut inside the name: still parses (to a shorter name), neither good nor bad for sure
    if kind == "v3short":
        return [0, 1, 7, 8, 15, 16, 17, 40]
    if kind == "xml":
        return list(range(0, 14))
    if kind == "name_len":
        return [0, 1, 3, 4]            # longer prefixes of net_ac_F7B4 parse to a valid type byte
    return list(range(0, 12))


def run(ctx) -> None:
    import hashlib

    def rnd_bytes(n, salt=[0]):
        salt[0] += 1
        return (hashlib.sha256(b"c18/%d" % salt[0]).digest() * 4)[:n]

    # exhaustive part: every bad class value with one good host, all interleavings of (good x2, bad x2) etc.
    n = 0
    for kind in discsim.BAD_KINDS:
        for arg in _args_for(kind, rnd_bytes):
            g = dict(_good_host(0, 2 + (n % 2)), good=True, kind="good")
            b = _bad_host(0, kind, [arg])
            for order in ([1, 0], [0, 1], [1, 0, 1, 0], [0, 1, 1, 0]):
                n += 1
                if ctx.mine(n):
                    case = {"hosts": [g, b], "order": order, "auto_connect": n % 7 == 0}
                    ctx.check(case, lambda c: _run_one(ctx, c))
    ctx.sweep("every bad-reply class value next to a good host", n, True)
    m = 0
    g0 = dict(_good_host(0, 2), good=True, kind="good")
    g1 = dict(_good_host(1, 3), good=True, kind="good")
    b0 = _bad_host(0, "cut", [17, 40])
    b1 = _bad_host(1, "xml", [2, 3])
    multisets = [[0, 0, 1, 1], [0, 0, 0, 1, 1], [0, 0, 1, 1, 2, 2], [0, 1, 2, 2, 3, 3], [0, 0, 0, 0, 0, 0], [0, 1, 2, 3]]
    for ms in multisets:
        for order in sorted(set(itertools.permutations(ms))):
            m += 1
            if ctx.mine(m):
                case = {"hosts": [g0, g1, b0, b1][:max(ms) + 1] if max(ms) < 2 else [g0, b0, g1, b1], "order": list(order),
                        "target": "directed" if m % 4 == 0 else None}
                ctx.check(case, lambda c: _run_one(ctx, c))
    ctx.sweep("all interleavings of small reply multisets", m, True)
    # two well-formed hosts, one of which carries the other's (or a foreign) address inside its reply: one device per
    # responding address, at the address it answered from
    e = 0
    for emb in ("10.0.0.11", "10.0.0.10", "0.0.0.0", "192.168.77.7", "10.0.9.1"):
        for order in ([0, 1], [1, 0], [0, 1, 0, 1], [0, 0, 1], [0, 2, 1], [2, 0, 1, 0]):
            for which in (0, 1):
                e += 1
                if ctx.mine(e):
                    hs = [dict(_good_host(0, 2), good=True, kind="good"), dict(_good_host(1, 3), good=True, kind="good"), _bad_host(0, "cut", [17])]
                    hs[which]["reported_ip"] = emb
                    case = {"hosts": hs, "order": order, "target": "directed" if e % 3 == 0 else None}
                    ctx.check(case, lambda c: _run_one(ctx, c))
    ctx.sweep("embedded address differs from the source address x arrival orders", e, True)
    # the single-device entry point with a malformed responder answering before / after / between well-formed ones
    sg = 0
    for kind in discsim.BAD_KINDS:
        args = _args_for(kind, rnd_bytes)
        for order in ([1, 0], [0, 1], [1, 1, 0], [1, 0, 2], [2, 1, 0]):
            for spacing in (0.001, 0.2):
                sg += 1
                if ctx.mine(sg):
                    hs = [dict(_good_host(0, 2 + sg % 2), good=True, kind="good"), _bad_host(0, kind, [args[sg % len(args)]]), dict(_good_host(1, 3 - sg % 2), good=True, kind="good")]
                    case = {"hosts": hs, "order": order, "api": "single", "spacing": spacing}
                    ctx.check(case, lambda c: _run_one(ctx, c))
    ctx.sweep("discover_single x malformed responder position x spacing", sg, True)
    # hosts in every kind of address range (private, carrier-grade NAT, link-local, public, benchmark)
    w = 0
    for i in range(len(GOOD_IPS)):
        for bad in (None, ("cut", 17), ("xml", 2)):
            w += 1
            if ctx.mine(w):
                hs = [dict(_good_host(i, 2 + i % 2, wide=True), good=True, kind="good"), dict(_good_host((i + 3) % len(GOOD_IPS), 3 - i % 2, wide=True), good=True, kind="good")]
                if bad:
                    hs.append(_bad_host(0, bad[0], [bad[1]]))
                case = {"hosts": hs, "order": list(range(len(hs))) + [0], "target": "directed" if w % 2 else None}
                ctx.check(case, lambda c: _run_one(ctx, c))
    ctx.sweep("well-formed hosts in private / CGNAT / link-local / public address ranges", w, True)
    # one host answering in both formats, with other traffic (hence loop iterations) in between
    v = 0
    for first, alt in ((2, 3), (3, 2)):
        for order in ([0, 0], [0, 1, 0], [0, 1, 1, 0], [0, 1, 0, 1, 0], [1, 0, 0, 1]):
            for spacing in (0.0, 0.001, 0.3):
                v += 1
                if ctx.mine(v):
                    hs = [dict(_good_host(0, first), good=True, kind="good", alt=alt), dict(_good_host(1, 2), good=True, kind="good")]
                    case = {"hosts": hs, "order": order, "spacing": spacing}
                    ctx.check(case, lambda c: _run_one(ctx, c))
    ctx.sweep("one host answering in both reply formats x arrival orders x spacing", v, True)
    # auto-connect with V3 hosts (model cloud + model devices) next to malformed responders and hosts whose reply header
    # carries non-zero bytes above the 48-bit id
    a = 0
    for kind, arg in (("cut", 17), ("xml", 2), ("name", 1), ("badpad", 0), ("random5a", "00" * 30), (None, None)):
        for hi in (0, 1, 0xFFFF):
            for order in ([0, 1, 2], [2, 1, 0], [1, 2, 0, 1]):
                a += 1
                if ctx.mine(a):
                    g2 = dict(_good_host(0, 2), good=True, kind="good")
                    g3 = dict(_good_host(1, 3), good=True, kind="good")
                    g3["id"] |= hi << 48
                    third = _bad_host(0, kind, [arg]) if kind else dict(_good_host(2, 3, 0xA1), good=True, kind="good", id=0x0000BEEF0001 | ((hi ^ 1) << 48))
                    case = {"hosts": [g2, g3, third], "order": order, "auto_connect": True, "cloud": True}
                    ctx.check(case, lambda c: _run_one(ctx, c))
    ctx.sweep("auto-connect incl. V3 (model cloud) x malformed neighbour x bytes above the id", a, True)

    # a legacy (XML) responder whose info port answers: well-formed XML, text that is no XML, bytes that are no text, nothing; with or
    # without hanging up - next to well-formed hosts
    V1_REPLIES = ["<root><body><device sn='1' type='ac'/></body></root>".encode().hex(), b"hello, not xml".hex(), b"<root><unclosed>".hex(), "fffe00c3", "", b"\x00".hex(), b"<?xml version='1.0'?>".hex()]
    x1 = 0
    for reply in V1_REPLIES:
        for then in (None, "fin"):
            for arg in (11, 13):
                for order in ([1, 0, 2], [0, 2, 1]):
                    x1 += 1
                    if ctx.mine(x1):
                        bad = dict(_bad_host(0, "xml", [arg]), v1_info=reply)
                        if then:
                            bad["v1_then"] = then
                        hs = [dict(_good_host(0, 2 + x1 % 2), good=True, kind="good"), bad, dict(_good_host(1, 3 - x1 % 2), good=True, kind="good")]
                        ctx.check({"hosts": hs, "order": order, "target": "directed" if x1 % 3 == 0 else None}, lambda c: _run_one(ctx, c))
    ctx.sweep("legacy XML responder with an answering info port x reply class x hang-up x arrival order", x1, True)
    # slow responders: a silence of 1..4.5 s between replies (everything still arrives within the 5 s timeout)
    sl = 0
    for pos in (1, 2, 3):
        for silence in (1.0, 2.2, 3.0, 4.5):
            for order in ([0, 1, 2, 3], [3, 2, 1, 0], [0, 0, 1, 2, 3]):
                sl += 1
                if ctx.mine(sl):
                    hs = [dict(_good_host(i, 2 + (i + sl) % 2), good=True, kind="good") for i in range(3)] + [_bad_host(0, "cut", [17])]
                    ctx.check({"hosts": hs, "order": order, "spacing": 0.01, "pause": [pos, silence]}, lambda c: _run_one(ctx, c))
    ctx.sweep("slow responders: silence between replies x position x arrival order", sl, True)

    def mk_case(spec):
        hosts = []
        for i, (good, version, tt, kind, seed) in enumerate(spec["hosts"]):
            if good:
                hosts.append(dict(_good_host(i, version, tt, wide=seed % 2 == 1), good=True, kind="good"))
                if seed % 5 == 0:
                    hosts[-1]["alt"] = 5 - version
            else:
                args = _args_for(kind, rnd_bytes)
                hosts.append(_bad_host(i, kind, [args[(seed + j) % len(args)] for j in range(3)]))
                if kind == "xml" and seed % 3 == 0:
                    hosts[-1]["v1_info"] = ["3c726f6f742f3e", "68656c6c6f", "fffe00c3", "", "3c726f6f743e"][seed % 5]
        order = [x % len(hosts) for x in spec["order"]]
        # the address a well-formed reply carries inside need not be the address it comes from (stale lease, second interface)
        for i, (h, e) in enumerate(zip(hosts, spec.get("embed", []))):
            if h["good"] and e:
                h["reported_ip"] = {"next": hosts[(i + 1) % len(hosts)]["ip"], "prev": hosts[i - 1]["ip"], "zero": "0.0.0.0", "other": "192.168.77.7"}[e]
        out = {"hosts": hosts, "order": order, "auto_connect": spec["auto"] and not any(h.get("reported_ip") for h in hosts), "spacing": spec["spacing"], "target": spec["target"],
               "cloud": spec.get("cloud", False), "api": "single" if (spec.get("single") and spec["target"] != "directed") else None}
        if spec.get("pause"):
            out["pause"] = [spec["pause"][0] % max(1, len(order)), spec["pause"][1]]
        return out

    host = st.tuples(st.booleans(), st.sampled_from([2, 3]), st.sampled_from([0xAC, 0xAC, 0xA1, 0xFF]), st.sampled_from(discsim.BAD_KINDS), st.integers(0, 60))
    embed = st.sampled_from([None, None, "next", "prev", "zero", "other"])
    cases = st.fixed_dictionaries({"hosts": st.lists(host, min_size=1, max_size=4), "order": st.lists(st.integers(0, 3), min_size=1, max_size=14),
                                   "auto": st.booleans(), "spacing": st.sampled_from([0.0, 0.001, 0.2]), "target": st.sampled_from([None, None, "directed"]),
                                   "embed": st.lists(embed, min_size=4, max_size=4), "cloud": st.booleans(), "single": st.sampled_from([False, False, False, True]),
                                   "pause": st.sampled_from([None, None, [1, 2.2], [2, 3.0], [1, 4.5], [3, 1.0]])}).map(mk_case)
    ctx.hyp("random", cases, lambda c: _run_one(ctx, c), ctx.n(4000, 200000))
    # byte-level search (atheris/libFuzzer) over raw datagrams and fuzzer-chosen bodies inside well-formed envelopes; an
    # additional search, the verdict never depends on it being available
    from .. import fuzzrun
    if not ctx.quick or ctx.shard < 2:
        fuzzrun.run_atheris(ctx, "c18", 30000 if ctx.quick else 600000, check_case, max_len=400)
