"""C19  Cloud token retrieval follows the API contract, returns only matching credentials."""
from __future__ import annotations

import hashlib

from hypothesis import strategies as st

from .. import discsim, gens, harness, vloop
from .. import refcodec as rc
from ..devsim import SimDevice
from ..model_ac import ModelAC
from ..model_cloud import ModelCloud, ModelSmartHome, creds_for

ID = "C19"
LEVEL = "exploration"
SHARDS = {"quick": 8, "thorough": 16}
RULE = ("concurrent-login leg: 2..3 coroutines call login() on one cloud object at (nearly) the same time while one login endpoint fails at first (API error, 503, connect error, 1..3 timeouts): a login() that returns normally is followed by a working get_token, every other outcome is a CloudError, the model cloud sees no unverifiable request. token leg (optionally the session is renewed once or twice on the same object - login(force=True) - and the token asked for again; every case runs against the NetHome Plus model cloud or against a model of the MSmartHome proxy API: JSON body, HMAC-SHA256 sign header over iot key + body + random, password and iampwd derivations, access-token header; optionally 2..5 further get_token calls for other ids run concurrently on the same cloud object and each must receive its own entry): account/password of printable ASCII (incl. + & = % space) or a built-in region, a 48-bit device id, a token "
        "list in which the matching entry is absent / first / middle / last among near-miss ids (prefix, suffix, case-flipped, one "
        "digit off), response field order shuffled, and a fault script per endpoint from {ok, timeout, HTTP 500/404, connect "
        "error, API error code}* up to and beyond the retry budget. Oracle: a model cloud that recomputes the signature from the "
        "received form fields, checks constant fields, loginAccount, the password derivation against the login id it issued, the "
        "session id on getToken and the udpid shape, and records every failed check; client side: get_token returns exactly the "
        "matching (token, key) or raises CloudError; faults raise CloudError/ApiError after <= 3 POSTs of that request and never "
        "another type; success when an ok comes within the budget. Discovery leg: a V3 model device (answering a wrong token with an error packet, or ignoring it) accepting only the "
        "credentials registered for udpid(id bytes, little or big endian; appliance type 0xAC or any other; the two header bytes above the 48-bit id zero or not) + the model cloud + Discover.discover(auto_connect=True): "
        "device token/key == registered pair, online, genuine handshake seen; for big endian the little-endian attempt failed "
        "first; variants: up to two more V3 devices answer the same discovery (their cloud round trips take time and overlap); the cloud fails during a first Discover.connect() and has recovered when the user retries. Non-trivial: token list with >= 2 entries and a near miss before the match, or a fault sequence with >= 1 retry, "
        "or big-endian registration, or a cloud that knows only the registered ids (API error or empty token list for any other id; used with little-endian registrations, for which no other id needs to be asked about). Distinct by case.")
ASSUMPTIONS = ["accounts and passwords are ASCII (the derivations encode with 'ASCII'); malformed JSON is not in the fault alphabet",
               "signature = sha256(path + '&'-joined sorted 'k=v' of the decoded form fields + app key), the public NetHome Plus scheme"]


def _near_misses(udpid: str) -> list:
    flip = udpid.upper() if udpid.upper() != udpid else udpid.lower()
    d = "0" if udpid[-1] != "0" else "1"
    return [udpid[:-1], udpid[1:], flip, udpid[:-1] + d, udpid + "0", "0" + udpid[1:] if udpid[0] != "0" else "f" + udpid[1:], ""]


def check_token(case: dict):
    from msmart.cloud import ApiError, CloudError, NetHomePlusCloud, SmartHomeCloud
    acct, pw = case.get("account"), case.get("password")
    region = case.get("region", "US")
    smarthome = case.get("cloud") == "smarthome"
    Cloud = SmartHomeCloud if smarthome else NetHomePlusCloud
    LOGIN = "/mj/user/login" if smarthome else "/v1/user/login"
    accounts = dict(Cloud.CLOUD_CREDENTIALS.values())
    if acct:
        accounts[acct] = pw
    mc = (ModelSmartHome if smarthome else ModelCloud)(accounts)
    mc.shuffle = case.get("shuffle", 0)
    mc.latency = case.get("latency", 0.05)        # a slow service: queued requests wait across second boundaries
    mc.fault_script = {(LOGIN if k == "/v1/user/login" else k): list(v) for k, v in case.get("faults", {}).items()}
    # further token requests issued concurrently on the same cloud object (each for its own id)
    others = [rc.udpid((case["id"] ^ (j * 0x010203)).to_bytes(6, "little")).hex() for j in range(1, 1 + case.get("concurrent", 0))] \
        if not case.get("faults", {}).get("/v1/iot/secure/getToken") else []
    udpid = rc.udpid(case["id"].to_bytes(6, "little")).hex()
    want = None
    if case.get("tokenlist") is not None:
        misses = _near_misses(udpid)
        lst = []
        for i, e in enumerate(case["tokenlist"]):
            if e == "match":
                t, k = creds_for(udpid)
                lst.append({"udpId": udpid, "token": t, "key": k})
                if want is None:
                    want = (t, k)
            else:
                u = misses[e % len(misses)]
                lst.append({"udpId": u, "token": f"WRONG{i:02d}" + "0" * 121, "key": f"WRONGKEY{i:02d}" + "0" * 54})
        mc.tokenlists[udpid] = lst
    else:
        want = creds_for(udpid)
    res = {}

    async def main(loop):
        try:
            cloud = Cloud(region, account=acct, password=pw, get_async_client=mc.client_factory())
        except ValueError as e:
            res["ctor"] = e
            return
        try:
            await cloud.login()
            res["login"] = "ok"
        except CloudError as e:
            res["login"] = e
        except BaseException as e:
            res["login"] = e
            res["other"] = True
        if res["login"] == "ok":
            import asyncio
            tasks = [asyncio.ensure_future(cloud.get_token(u)) for u in others]
            try:
                res["token"] = await cloud.get_token(udpid)
            except CloudError as e:
                res["token_exc"] = e
            except BaseException as e:
                res["token_exc"] = e
                res["other"] = True
            res["others"] = await asyncio.gather(*tasks, return_exceptions=True)
            for _ in range(case.get("relogin", 0) if not case.get("faults") else 0):
                # history: the application logs in again on the same object (session renewal: login(force=True)) and asks again
                if "token_exc" in res:
                    break
                try:
                    await cloud.login(force=True)
                    again = await cloud.get_token(udpid)
                    if tuple(again) != tuple(res["token"]):
                        res["relogin_diff"] = again
                except BaseException as e:
                    res["relogin_exc"] = e
                    break

    vloop.run(main)
    if "ctor" in res:
        return ("constructor", f"constructor rejected valid credentials/region: {res['ctor']!r}")
    if res.get("other"):
        e = res.get("token_exc") or res.get("login")
        return (f"escapes/{type(e).__name__}", f"{e!r} is not a CloudError (faults {case.get('faults')})")
    if mc.errors:
        return ("contract/" + mc.errors[0].split(":")[0].split("/")[-1] + "/" + mc.errors[0].split(": ")[1].split()[0],
                f"model cloud rejected a request: {mc.errors[:3]}")
    if "relogin_exc" in res:
        return (f"relogin/{type(res['relogin_exc']).__name__}", f"login(force=True) + get_token after a successful session failed: {res['relogin_exc']!r}")
    if "relogin_diff" in res:
        return ("relogin/token", f"get_token after login(force=True) returned {res['relogin_diff']} instead of {res.get('token')}")
    for u, r in zip(others, res.get("others", [])):
        if isinstance(r, BaseException) or tuple(r) != creds_for(u):
            return ("token/concurrent", f"a concurrent get_token({u}) on the same cloud object gave {r!r}")
    relog = case.get("relogin", 0) if (not case.get("faults") and "token_exc" not in res and res.get("login") == "ok") else 0
    for path, n in mc.posts.items():
        if n > 3 + relog + (len(others) if path.endswith("getToken") else 0):
            return ("retries", f"{n} POSTs of {path}")
    # expected outcome per endpoint from the fault scripts
    def outcome(path):
        script = case.get("faults", {}).get(path, [])
        n = 0
        for f in script[:3]:
            n += 1
            if f == "timeout":
                continue
            return (f, n)
        if len(script) >= 3 and all(f == "timeout" for f in script[:3]):
            return ("timeout", 3)
        return ("ok", n + 1 if len(script) < 3 else 3)

    for path, key in (("/v1/user/login/id/get", "login"), ("/v1/user/login", "login"), ("/v1/iot/secure/getToken", "token")):
        o, n = outcome(path)
        seen = mc.posts.get(LOGIN if path == "/v1/user/login" else path, 0)
        if path.endswith("getToken"):
            seen -= len(others)
        if relog and path.endswith("id/get"):
            seen = n if seen in (n, n + relog) else seen      # (a renewal may or may not ask for a new login id)
        else:
            seen -= relog       # (each renewal of the session posts once more to the login and token endpoints)
        if o != "ok":
            exc = res.get("login") if key == "login" else res.get("token_exc")
            if not isinstance(exc, CloudError):
                return ("fault-not-surfaced", f"{path} fault {o} but outcome was {exc!r} / {res.get('token')}")
            if o.startswith("api:") and not isinstance(exc, ApiError):
                return ("api-error-type", f"API error code surfaced as {exc!r}")
            if seen != n:
                return ("attempts", f"{path}: {seen} POSTs, fault script {case['faults'].get(path)} implies {n}")
            return None
        if seen != n:
            return ("attempts", f"{path}: {seen} POSTs, fault script {case.get('faults', {}).get(path)} implies {n}")
    if res.get("login") != "ok":
        return ("login-failed", f"login failed without a scripted fault: {res.get('login')!r}")
    if want is None:
        if "token_exc" not in res:
            return ("token/foreign-entry", f"no entry matches {udpid} but get_token returned {res.get('token')}")
        return None
    if "token_exc" in res:
        return ("token/not-found", f"matching entry present but get_token raised {res['token_exc']!r}")
    if tuple(res["token"]) != want:
        return ("token/wrong-entry", f"get_token returned {res['token']} instead of the matching entry")
    return None


def check_discovery(case: dict):
    from msmart.discover import Discover
    endian = case["endian"]
    dev_id = case["id"]
    udpid = rc.udpid(dev_id.to_bytes(6, endian)).hex()
    t_hex, k_hex = creds_for(udpid)
    token, key = bytes.fromhex(t_hex), bytes.fromhex(k_hex)
    from msmart.cloud import NetHomePlusCloud
    acct, pw = case.get("account"), case.get("password")
    accounts = dict(NetHomePlusCloud.CLOUD_CREDENTIALS.values())
    if acct:
        accounts[acct] = pw
    mc = ModelCloud(accounts)
    net = vloop.Net()
    res = {}

    async def main(loop):
        harness.reset_library_globals()
        # the 8-byte id field of the reply header: the id is its low 48 bits (what the udpid is derived from); firmware may
        # leave anything in the two bytes above it.  The appliance type is an air conditioner or any other type byte.
        h = {"ip": "10.0.0.77", "id": dev_id | (case.get("hi", 0) << 48), "port": case.get("port", 6444), "sn": "S" * 32, "tt": case.get("tt", 0xAC), "suffix": "ABCD", "version": 3,
             "listen_port": 6445, "extra": bytes(8).hex()}
        dev = SimDevice(loop, version=3, device_id=dev_id, token=token, key=key, ac=ModelAC())
        dev.silent_on_bad_token = bool(case.get("silent")) and case.get("silent") != "slow"     # firmware that ignores a handshake with a wrong token instead of answering ERROR
        if case.get("silent") == "slow":
            dev.bad_token_delay = 6.2        # ... or answers ERROR only after the client has given up on that handshake (3 x 2 s)
        net.listen(h["ip"], h["port"], dev)
        # further V3 devices answering the same discovery (their cloud logins / token requests overlap in time)
        world_hosts = [dict(ip=h["ip"], listen_port=6445, replies=[(0.05, 6445, discsim.good_reply(h))])]
        more = []
        for i, m in enumerate(case.get("more", [])):
            u = rc.udpid(m["id"].to_bytes(6, m["endian"])).hex()
            mt, mk = creds_for(u)
            hh = dict(h, ip=f"10.0.0.{80 + i}", id=m["id"] | (m.get("hi", 0) << 48), suffix=f"M{i}", tt=m.get("tt", 0xAC))
            d2 = SimDevice(loop, version=3, device_id=m["id"], token=bytes.fromhex(mt), key=bytes.fromhex(mk), ac=ModelAC())
            net.listen(hh["ip"], hh["port"], d2)
            world_hosts.append(dict(ip=hh["ip"], listen_port=6445, replies=[(0.05 + 0.001 * (i + 1) * m.get("stagger", 1), 6445, discsim.good_reply(hh))]))
            more.append((hh["ip"], mt, mk))
        res["more"] = more
        if case.get("strict") and endian == "little" and all(m["endian"] == "little" for m in case.get("more", [])):
            # a cloud that only knows registered ids (the device is registered under the first id asked about: nothing else
            # needs to be looked up)
            mc.known = {udpid} | {rc.udpid(m["id"].to_bytes(6, m["endian"])).hex() for m in case.get("more", [])}
            mc.unknown_mode = case["strict"]
        discsim.UdpWorld(net, world_hosts)
        kw = {"account": acct, "password": pw} if acct else {"region": case.get("region", "US")}
        try:
            if case.get("outage"):
                # the cloud is unreachable at first: discovery without auto-connect, a connect attempt that fails with a
                # cloud error, then (cloud recovered) the user retries the connect
                from msmart.cloud import CloudError
                devs = await Discover.discover(auto_connect=False, timeout=5, get_async_client=mc.client_factory(), **kw)
                mc.fault_script = {k: list(v) for k, v in case["outage"].items()}
                for d in devs:
                    try:
                        await Discover.connect(d)
                        res["outage_result"] = "connected"
                    except CloudError as e:
                        res["outage_result"] = "clouderror"
                mc.fault_script = {}
                mc.posts.clear()
                for d in devs:
                    res["retry"] = await Discover.connect(d)
            else:
                devs = await Discover.discover(auto_connect=True, timeout=5, get_async_client=mc.client_factory(), **kw)
            res["devs"] = devs
        except BaseException as e:
            res["exc"] = e
        res["log"] = [(e.kind, e.token == token if e.kind == "hs_req" else None, e.note) for e in dev.log if e.kind in ("hs_req", "hs_reply", "data", "undecodable")]

    vloop.run(main, net)
    if "exc" in res:
        return (f"discover/raises/{type(res['exc']).__name__}", f"{res['exc']!r}")
    if mc.errors:
        return ("contract/" + mc.errors[0].split(": ")[1].split()[0], f"model cloud rejected a request: {mc.errors[:3]}")
    if len(res["devs"]) != 1 + len(res["more"]):
        return ("discover/count", f"{len(res['devs'])} devices for {1 + len(res['more'])} hosts")
    for ip, mt, mk in res["more"]:
        dd = [x for x in res["devs"] if x.ip == ip]
        tt_i = next((m.get("tt", 0xAC) for j, m in enumerate(case.get("more", [])) if f"10.0.0.{80 + j}" == ip), 0xAC)
        if len(dd) != 1 or (dd[0].token, dd[0].key) != (mt.lower(), mk.lower()) or (tt_i == 0xAC and not dd[0].online):
            return ("discover/second-device", f"device {ip} answering the same discovery: token/key/online = "
                    f"{(dd[0].token and dd[0].token[:12], dd[0].key and dd[0].key[:12], dd[0].online) if dd else None}")
    d = [x for x in res["devs"] if x.ip == "10.0.0.77"][0]
    if (d.token, d.key) != (token.hex(), key.hex()):
        return ("discover/creds", f"device token/key {d.token and d.token[:16]}../{d.key and d.key[:16]}.. != registered pair (endian {endian})")
    if not d.online and case.get("tt", 0xAC) == 0xAC:      # (a generic device is authenticated but cannot be refreshed)
        return ("discover/offline", f"V3 device registered under {endian}-endian udpid not online after auto-connect; device saw {res['log']}")
    hs = [x for x in res["log"] if x[0] == "hs_req"]
    if case.get("outage"):
        return None          # attempts made during the outage are not constrained; the retry succeeded with the right credentials
    if endian == "big":
        if len(hs) < 2 or hs[0][1] is not False or hs[-1][1] is not True or any(x[1] for x in hs[:-1]):
            return ("discover/endian-order", f"handshake attempts {hs}")
    else:
        if len(hs) != 1 or hs[0][1] is not True:
            return ("discover/attempts", f"handshake attempts {hs}")
    asked = [f.get("udpid") for p, f in mc.requests if p.endswith("getToken")]
    if asked[0] != rc.udpid(dev_id.to_bytes(6, "little")).hex():
        return ("discover/udpid", f"first udpid asked {asked[0]}")
    return None


def check_colog(case: dict):
    """Several coroutines share one cloud object and log in at the same time while the login endpoints misbehave for the first
    attempts.  Whoever's login() returns normally has a session the server issued: its get_token works; everybody else gets a
    CloudError.  (Nothing is assumed about how many logins reach the server.)"""
    from msmart.cloud import CloudError, NetHomePlusCloud, SmartHomeCloud
    smarthome = case.get("cloud") == "smarthome"
    Cloud = SmartHomeCloud if smarthome else NetHomePlusCloud
    LOGIN = "/mj/user/login" if smarthome else "/v1/user/login"
    mc = (ModelSmartHome if smarthome else ModelCloud)(dict(Cloud.CLOUD_CREDENTIALS.values()))
    mc.latency = case.get("latency", 0.05)
    mc.fault_script = {(LOGIN if k == "/v1/user/login" else k): list(v) for k, v in case.get("faults", {}).items()}
    res = {"workers": []}

    async def main(loop):
        import asyncio
        cloud = Cloud(case.get("region", "US"), get_async_client=mc.client_factory())

        async def worker(i):
            await asyncio.sleep(case.get("stagger", 0.0) * i)
            rec = {"i": i}
            try:
                await cloud.login()
                rec["login"] = "ok"
            except CloudError as e:
                rec["login"] = "clouderror"
                return rec
            except BaseException as e:
                rec["login"] = e
                return rec
            u = rc.udpid((case["id"] + i).to_bytes(6, "little")).hex()
            try:
                rec["token"] = tuple(await cloud.get_token(u))
                rec["want"] = creds_for(u)
            except BaseException as e:
                rec["token_exc"] = e
            return rec
        res["workers"] = await asyncio.gather(*[worker(i) for i in range(case.get("workers", 2))])

    vloop.run(main)
    for rec in res["workers"]:
        if isinstance(rec.get("login"), BaseException):
            return (f"colog/escapes/{type(rec['login']).__name__}", f"login() of worker {rec['i']} raised {rec['login']!r}, not a CloudError (faults {case.get('faults')})")
        if rec.get("login") == "ok":
            if "token_exc" in rec:
                return ("colog/session", f"login() of worker {rec['i']} returned normally but its get_token failed: {rec['token_exc']!r}; server complaints {mc.errors[:2]} (faults {case.get('faults')})")
            if rec["token"] != rec["want"]:
                return ("colog/token", f"worker {rec['i']} got {rec['token']}")
    if mc.errors:
        return ("contract/" + mc.errors[0].split(":")[0].split("/")[-1] + "/" + mc.errors[0].split(": ")[1].split()[0], f"model cloud rejected a request: {mc.errors[:3]}")
    return None


def check_case(case: dict):
    if case.get("leg") == "colog":
        return check_colog(case)
    return check_discovery(case) if case.get("leg") == "discovery" else check_token(case)


def replay(ctx, case):
    return check_case(case)


def _run_one(ctx, case):
    import json
    if case.get("leg") == "colog":
        nt, cls = True, "concurrent-logins/" + case.get("cloud", "nethome")
    elif case.get("leg") == "discovery":
        nt = case["endian"] == "big" or bool(case.get("strict"))
        cls = "discovery/" + case["endian"]
    else:
        tl = case.get("tokenlist")
        faults = case.get("faults", {})
        nt = bool(tl and len(tl) >= 2 and "match" in tl and tl.index("match") > 0) or any("timeout" in v[:2] for v in faults.values())
        cls = "token/" + case.get("cloud", "nethome") + "/" + ("faults" if any(faults.values()) else "clean")
        nt = nt or case.get("concurrent", 0) >= 2
    ctx.case(hash(json.dumps(case, sort_keys=True)), nt, cls=cls)
    ctx.sample(cls, case)
    return check_case(case)


def run(ctx) -> None:
    text = st.text(alphabet="abcdefghijklmnopqrstuvwxyzABCDEFGHIJKLMNOPQRSTUVWXYZ0123456789+&=% @._-!#$*/?:;,~", min_size=1, max_size=40)
    fault = st.sampled_from(["ok", "timeout", "timeout", "http500", "http404", "http502", "http503", "http503", "http504", "http429", "http301", "http502j", "http503k", "http401j", "http500k", "connect", "api:3101", "api:9999", "api:1"])
    faults = st.fixed_dictionaries({}, optional={"/v1/user/login/id/get": st.lists(fault, max_size=4), "/v1/user/login": st.lists(fault, max_size=4),
                                                 "/v1/iot/secure/getToken": st.lists(fault, max_size=4)})
    entry = st.one_of(st.just("match"), st.integers(0, 6))
    token_cases = st.fixed_dictionaries({
        "id": gens.device_ids(48), "shuffle": st.integers(0, 1),
        "tokenlist": st.one_of(st.none(), st.lists(entry, max_size=6)),
        "faults": st.one_of(st.just({}), faults),
    }, optional={"account": text, "password": text, "region": st.sampled_from(["US", "DE", "KR"]), "cloud": st.sampled_from(["nethome", "smarthome"]),
                 "concurrent": st.sampled_from([0, 2, 4]), "latency": st.sampled_from([0.05, 0.05, 0.45, 1.3]), "relogin": st.sampled_from([0, 0, 1, 2])}).map(
        lambda c: c if ("account" in c) == ("password" in c) else {k: v for k, v in c.items() if k not in ("account", "password")})
    # both cloud flavours x regions x concurrency, no faults
    q = 0
    for cloud in ("nethome", "smarthome"):
        for region in ("US", "DE", "KR"):
            for conc in (0, 2, 3, 5):
                for tl in (None, ["match"], [3, "match", 1], [0, 1, 2]):
                    q += 1
                    if ctx.mine(q):
                        case = {"id": 0x1A2B3C4D5E6F ^ (q * 0x10001), "shuffle": q % 2, "tokenlist": tl, "faults": {}, "region": region, "cloud": cloud, "concurrent": conc,
                                "latency": [0.05, 0.45, 1.3][q % 3], "relogin": q % 3}
                        ctx.check(case, lambda c: _run_one(ctx, c))
    ctx.sweep("cloud flavour x region x concurrent requests x token list shapes", q, True)
    # every sequence of up to 4 faults from {timeout, 503, 502 with a gateway JSON body, 500 with a success-shaped JSON body, ok} on each endpoint: attempts never exceed the budget
    import itertools
    f = 0
    for path in ("/v1/user/login/id/get", "/v1/user/login", "/v1/iot/secure/getToken"):
        for n in (1, 2, 3, 4):
            for seq in itertools.product(["timeout", "http503", "http502j", "http500k", "ok"], repeat=n):
                if "ok" in seq[:-1] or (n == 4 and ctx.quick and hash(seq) % 3):
                    continue
                f += 1
                if ctx.mine(f):
                    case = {"id": 0x00AABBCCDD00 + f, "shuffle": 0, "tokenlist": None, "faults": {path: list(seq)}, "cloud": ["nethome", "smarthome"][f % 2]}
                    ctx.check(case, lambda c: _run_one(ctx, c))
    ctx.sweep("fault sequences (timeouts mixed with gateway errors) per endpoint", f, True)
    # several coroutines log in through one cloud object at the same time while the login endpoints fail at first
    cl = 0
    for cloud in ("nethome", "smarthome"):
        for path in ("/v1/user/login/id/get", "/v1/user/login"):
            for seq in (["api:3101"], ["http503"], ["timeout", "timeout", "timeout"], ["connect"], ["http500k"], ["timeout"], []):
                for workers, stagger in ((2, 0.0), (2, 0.02), (3, 0.0), (2, 0.3)):
                    cl += 1
                    if ctx.mine(cl):
                        case = {"leg": "colog", "id": 0x00C0FFEE0000 + cl, "cloud": cloud, "faults": {path: list(seq)} if seq else {}, "workers": workers, "stagger": stagger,
                                "latency": [0.05, 0.2][cl % 2]}
                        ctx.check(case, lambda c: _run_one(ctx, c))
    ctx.sweep("concurrent logins on one cloud object x failing login endpoint x cloud flavour", cl, True)
    ctx.hyp("token", token_cases, lambda c: _run_one(ctx, c), ctx.n(3200, 160000))
    disc_cases = st.fixed_dictionaries({"leg": st.just("discovery"), "id": gens.device_ids(48).filter(lambda i: i.to_bytes(6, "little") != i.to_bytes(6, "big")),
                                        "endian": st.sampled_from(["little", "big"]), "port": st.sampled_from([6444, 6444, 7000])},
                                       optional={"silent": st.sampled_from([False, True, "slow"]), "strict": st.sampled_from([None, "api", "empty"]), "hi": st.sampled_from([0, 0, 1, 0xFFFF, 0x8000]), "tt": st.sampled_from([0xAC, 0xAC, 0xA1, 0xE1, 0x00, 0xFF]),
                                                 "more": st.lists(st.fixed_dictionaries({"id": gens.device_ids(48).filter(lambda i: i.to_bytes(6, "little") != i.to_bytes(6, "big")),
                                                                                         "endian": st.sampled_from(["little", "big"]), "stagger": st.sampled_from([0, 1, 30, 200])},
                                                                                        optional={"hi": st.sampled_from([0, 1, 0xFFFF]), "tt": st.sampled_from([0xAC, 0xA1, 0xFF])}), max_size=2),
                                                 "outage": st.fixed_dictionaries({}, optional={
                                           "/v1/user/login/id/get": st.lists(st.sampled_from(["timeout", "timeout", "http500", "connect", "api:3101"]), min_size=1, max_size=3),
                                           "/v1/user/login": st.lists(st.sampled_from(["timeout", "http500", "api:3102"]), min_size=1, max_size=3),
                                           "/v1/iot/secure/getToken": st.lists(st.sampled_from(["timeout", "timeout", "http404", "api:3106"]), min_size=1, max_size=3)}),
                                                 "account": text, "password": text, "region": st.sampled_from(["US", "DE", "KR"])}).map(
        lambda c: c if ("account" in c) == ("password" in c) else {k: v for k, v in c.items() if k not in ("account", "password")})
    # deterministic: devices registered under the first (little-endian) id against a cloud that knows only registered ids
    k = 0
    for dev_id in (0x0000A1B2C3D4, 0x7F0000000001, 0x123456789ABC, 15393162840672, 147334558165565):
        for strict in ("api", "empty"):
            for silent in (False, True):
                k += 1
                if ctx.mine(k):
                    case = {"leg": "discovery", "id": dev_id, "endian": "little", "port": 6444, "strict": strict, "silent": silent}
                    ctx.check(case, lambda c: _run_one(ctx, c))
    ctx.sweep("little-endian registrations x strict cloud modes x firmware answers", k, True)
    # appliance types other than air conditioners, and non-zero bytes above the 48-bit id in the reply header
    g = 0
    for tt in (0xAC, 0xA1, 0xE1, 0x00, 0xFF):
        for hi in (0, 1, 0xFFFF):
            for endian in ("little", "big"):
                g += 1
                if ctx.mine(g):
                    case = {"leg": "discovery", "id": 0x0000A1B2C3D4 + g, "endian": endian, "port": 6444, "tt": tt, "hi": hi,
                            "more": [{"id": 0x00112233AA00 + g, "endian": "little", "stagger": 1, "hi": hi ^ 0xFFFF if g % 2 else 0, "tt": 0xAC if tt != 0xAC else 0xA1}]}
                    ctx.check(case, lambda c: _run_one(ctx, c))
    ctx.sweep("appliance type x bytes above the id x byte order (with a second device of another kind)", g, True)
    # firmware that rejects an unknown token only after 6.2 s (the client has given up on that handshake by then): the late ERROR must
    # not be taken for the answer to the next byte order's handshake
    sl = 0
    for dev_id in (0x0000A1B2C3D4, 0x123456789ABC, 15393162840672):
        for endian in ("big", "little"):
            for tt in (0xAC, 0xA1):
                sl += 1
                if ctx.mine(sl):
                    ctx.check({"leg": "discovery", "id": dev_id, "endian": endian, "port": 6444, "silent": "slow", "tt": tt}, lambda c: _run_one(ctx, c))
    ctx.sweep("slow rejection of the wrong byte order's token x ids x byte order x type", sl, True)
    ctx.hyp("discovery", disc_cases, lambda c: _run_one(ctx, c), ctx.n(600, 32000))
