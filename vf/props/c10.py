"""C10  Control command encodes exactly the requested state (vendor bit layout)."""
from __future__ import annotations

import itertools
import random

from hypothesis import strategies as st

from .. import acutil, gens, vloop
from .. import refcodec as rc
from ..devsim import SimDevice
from ..model_ac import ModelAC, decode_control_body

ID = "C10"
LEVEL = "exploration"
SHARDS = {"quick": 8, "thorough": 16}
RULE = ("a settable state (power, mode 1..6, setpoint 13.0..43.5 step 0.5, fan 0..127, swing, eco, turbo, sleep, Fahrenheit, "
        "freeze protection, follow-me, purifier, target humidity 0..127, aux mode, beep) is written through AirConditioner "
        "setters + apply() (or, for a share of the cases, as setting=value arguments of `msmart-ng control`) to a model device whose 0x40 decoder follows the vendor Lua layout (and through SetStateCommand "
        "directly for all 16 raw swing nibbles), on a fresh client, with the enumerated settings assigned as plain integers instead of enum members, against a busy unit whose answer to the command reports its old state (alone, before or after the new report; apply() must leave the unit with one command: the requested one), after get_capabilities() against two capability profiles (one without custom fan speeds), or after a refresh from a unit whose state reports are short (16..21 bytes) or have every unmodelled bit of bytes 8..10 set, with or without property-protocol settings pending in the same apply(), while the object is otherwise idle or while an earlier refresh()/apply() of the same object is still awaiting its answer, through the canonical attributes or the deprecated alias attributes (eco_mode, turbo_mode, sleep_mode, freeze_protection_mode); the decoded body must equal the request field by field, vendor-fixed constants must "
        "hold (0x40, mobile-client bit, timers off, swing high bits 0x30, undefined bits clear), and no two different states may "
        "share a body. Per-field exhaustive sweeps (62 setpoints x 6 modes, 128 fan bytes, humidity 0..127, flags sharing a "
        "byte in all combinations) over two backgrounds, a greedy pairwise covering array, and Hypothesis random states. "
        "Non-trivial: every state except the all-default one. Distinct by state.")
ASSUMPTIONS = ["alternate setpoint codes decode linearly (code+12) as the property states the range 13-43 C (DESIGN 5)",
               "follow-me is byte 8 bit 7 (dudanov/MideaUART; not in this Lua file)"]

BASE = {"power": False, "mode": 2, "target": 24.0, "fan": 102, "swing": 0, "eco": False, "turbo": False, "sleep": False,
        "fahrenheit": False, "freeze": False, "follow_me": False, "purifier": False, "humidity": 40, "aux": 0, "beep": False}
FLAGS = ["power", "beep", "follow_me", "turbo", "eco", "purifier", "sleep", "fahrenheit", "freeze"]


def _apply_and_get_body(s: dict, via: str, caps_profile=None, case_propset=0, case_aliases=False, inflight=None, busy=None, as_ints=False):
    """Returns (body bytes, model state, rejected list)."""
    from msmart.device import AirConditioner as AC
    from msmart.device.AC.command import SetStateCommand
    if via == "command":
        cmd = SetStateCommand()
        cmd.beep_on = s["beep"]
        cmd.power_on = s["power"]
        cmd.target_temperature = s["target"]
        cmd.operational_mode = s["mode"]
        cmd.fan_speed = s["fan"]
        cmd.swing_mode = s["swing"]
        cmd.eco = s["eco"]
        cmd.turbo = s["turbo"]
        cmd.freeze_protection = s["freeze"]
        cmd.sleep = s["sleep"]
        cmd.fahrenheit = s["fahrenheit"]
        cmd.follow_me = s["follow_me"]
        cmd.purifier = s["purifier"]
        cmd.target_humidity = s["humidity"]
        cmd.aux_heat = s["aux"] == 1
        cmd.independent_aux_heat = s["aux"] == 2
        frame = cmd.tobytes()
        m = ModelAC()
        m.handle(frame)
        return (m.control_bodies[-1] if m.control_bodies else None), m.state, m.rejected
    if via == "cli":
        # the documented command line front end: every field given as setting=value to `msmart-ng control`
        from . import c20
        swing_names = {0: "off", 0xC: "vertical", 0x3: "horizontal", 0xF: "both"}
        settings = [f"power_state={s['power']}", f"operational_mode={s['mode']}", f"target_temperature={s['target']}", f"fan_speed={s['fan']}",
                    f"swing_mode={swing_names.get(s['swing'], s['swing'])}", f"eco={s['eco']}", f"turbo={s['turbo']}", f"sleep={s['sleep']}",
                    f"fahrenheit={s['fahrenheit']}", f"freeze_protection={s['freeze']}", f"follow_me={s['follow_me']}", f"purifier={s['purifier']}",
                    f"target_humidity={s['humidity']}", f"aux_mode={s['aux']}", f"beep={s['beep']}"]
        if isinstance(as_ints, str) and as_ints.startswith("float"):
            # the numbers of the enumerated settings written with a decimal point (60.0): an undocumented spelling - the command line may
            # refuse it, but must not apply anything else
            floated = {"float": ("operational_mode", "fan_speed", "swing_mode", "aux_mode"), "float:fan": ("fan_speed",), "float:fsa": ("fan_speed", "swing_mode", "aux_mode")}[as_ints]
            settings = [x if x.split("=")[0] not in floated else x.split("=")[0] + "=" + str(float({"operational_mode": s["mode"], "fan_speed": s["fan"], "swing_mode": s["swing"], "aux_mode": s["aux"]}[x.split("=")[0]])) for x in settings]
        initial = dict(c20.DEFAULT_INITIAL)
        if case_propset:
            # a display change on the same command line, at the end or in the middle (it is carried by a toggle command of its
            # own and must not disturb the other settings)
            settings.insert(len(settings) if case_propset == 1 else 7, f"display_on={not initial['display_on']}")
        status, exc, _net, holder = c20.run_cli({"kind": "valid", "settings": settings, "initial": initial, "capabilities": bool(caps_profile), "version": 2})
        m = holder["m"]
        if status != 0 and isinstance(as_ints, str) and as_ints.startswith("float"):
            return b"refused", m.state, []
        if status != 0:
            return None, m.state, [(None, f"msmart-ng control {' '.join(settings)} exited {status} ({exc!r})")]
        return (m.control_bodies[-1] if m.control_bodies else None), m.state, m.rejected
    net = vloop.Net()
    res = {}

    async def main(loop):
        dev = SimDevice(loop, version=2, device_id=3, ac=ModelAC())
        net.listen("10.0.0.9", 6444, dev)
        ac = AC(ip="10.0.0.9", port=6444, device_id=3)
        if caps_profile == "noisy":
            # history: the unit's last report had every bit set that the library does not model (bytes 8, 9, 10 carry more
            # settings than the library knows); none of them may find its way into a modelled field of the command
            dev.ac.state_overrides = {8: 0xFF, 9: 0xFF, 10: 0xFF}
            await ac.refresh()
            dev.ac.state_overrides = {}
        elif caps_profile and caps_profile.startswith("short"):
            # history: the unit is an older one whose state reports are short (16..21 bytes: no humidity / freeze-protection
            # bytes) and the client has refreshed from it; what is then requested must still be encoded in full
            dev.ac.state_len = int(caps_profile[5:])
            await ac.refresh()
        elif caps_profile:
            # configuration: the client queried the device's capabilities first (they must not alter the encoding)
            from .. import respkinds as RK
            dev.ac.cap_pages = [(list(RK.CAPS0 if caps_profile == "caps0" else RK.CAPS1), b"")]
            await ac.get_capabilities()
            if caps_profile == "caps0+refresh":
                await ac.refresh()
        bg = None
        if inflight:
            # schedule: a poll (or an earlier apply) of the same object is still waiting for its answer when the user
            # changes attributes and calls apply(); the command must carry the state requested at that call
            import asyncio
            dev.latency = 0.3
            bg = asyncio.ensure_future(ac.refresh() if inflight == "refresh" else ac.apply())
            await asyncio.sleep(0.1)
        if case_aliases:
            # (set the canonical attributes to the opposite first so that only the alias carries the requested value)
            acutil.set_attrs(ac, dict(s, eco=not s["eco"], turbo=not s["turbo"], sleep=not s["sleep"], freeze=not s["freeze"]))
        else:
            acutil.set_attrs(ac, s)
        if case_aliases:
            # the deprecated alias attributes are still public API: they must set the same state
            ac.eco_mode = s["eco"]
            ac.turbo_mode = s["turbo"]
            ac.sleep_mode = s["sleep"]
            ac.freeze_protection_mode = s["freeze"]
            for name in ("eco", "turbo", "sleep", "freeze_protection"):
                pass
        if as_ints:
            # the enumerated settings arrive as plain integers (settings restored from to_dict() / JSON, integrations that store numbers):
            # IntEnum members and their integer values are interchangeable at the public setters
            ac.operational_mode = int(s["mode"])
            ac.fan_speed = int(s["fan"])
            ac.swing_mode = int(s["swing"])
            ac.aux_mode = int(s["aux"])
        if case_propset:
            # settings carried by the property protocol changed since the last apply (they travel in a second command)
            dev.ac.props.update({0x0009: b"\x00", 0x000A: b"\x00", 0x0048: b"\x64", 0x00E3: bytes(12), 0x0043: b"\x01", 0x0042: b"\x01", 0x0018: b"\x00"})
            ac.vertical_swing_angle = AC.SwingAngle.POS_3
            if case_propset > 1:
                ac.ieco = True
                ac.rate_select = AC.RateSelect.LEVEL_3
                ac.breezeless = True
        n0 = len(dev.ac.control_bodies)
        if busy:
            # the unit takes the command but the report it answers with does not show the requested state yet (busy / just woken
            # up: it reports the state it had before; or the report of an earlier moment arrives as well)
            def on_data(dev_, conn, frame):
                try:
                    is_ctl = rc.frame_parse(frame).body[0] == 0x40
                except Exception:
                    is_ctl = False
                if not is_ctl:
                    return None
                old = dev_.ac.state_frame(0x02)
                if busy == "old":
                    return ("frames", [old], {})
                return ("answer", {"pre": [old]} if busy == "old+new" else {"post": [old]})
            dev.on_data = on_data
        await ac.apply()
        dev.on_data = None
        res["during"] = [bytes(b) for b in dev.ac.control_bodies[n0:]]
        if bg is not None:
            await bg
            res["index"] = n0     # the body of the command issued by *this* apply()
        res["m"] = dev.ac
        ac._lan._disconnect()

    vloop.run(main, net)
    m = res["m"]
    if busy and len(set(res["during"])) > 1:
        # more than one command, and they differ: the last one is what the unit ends up with
        return res["during"][-1], m.state, m.rejected + [(None, f"apply() sent {len(res['during'])} different control commands: {[b.hex() for b in res['during']]}")]
    if "index" in res:
        return (m.control_bodies[res["index"]] if len(m.control_bodies) > res["index"] else None), m.state, m.rejected
    return (m.control_bodies[-1] if m.control_bodies else None), m.state, m.rejected


_SEEN: dict = {}


def check_case(case: dict):
    s = case["state"]
    via = case.get("via", "device")
    body, state, rejected = _apply_and_get_body(s, via, case.get("caps"), case.get("propset", 0), case.get("aliases", False), case.get("inflight"), case.get("busy"), case.get("as_ints", False))
    if rejected and "different control commands" in str(rejected[-1][1]):
        return ("extra-command", str(rejected[-1][1]) + f"; requested {s}")
    if rejected:
        return ("rejected", f"model device rejected the command: {rejected[0][1]}")
    if body == b"refused":
        return None          # (an undocumented spelling was refused outright: allowed)
    if body is None:
        return ("no-command", "no 0x40 command reached the device")
    d = decode_control_body(body)
    want = acutil.expected_model_fields(s)
    want["fan"] = s["fan"] & 0x7F
    want["swing"] = s["swing"] & 0x0F
    diffs = [f"{k}: decoded {d[k]!r}, requested {v!r}" for k, v in want.items() if d[k] != v]
    if diffs:
        field = diffs[0].split(":")[0]
        return (f"field/{field}", "; ".join(diffs) + f" body={body.hex()}")
    c = d["_const"]
    const_ok = (c["mobile_client"] and not c["timer_switch_bit"] and c["on_timer_off"] and c["off_timer_off"]
                and c["swing_high_bits"] == 0x30
                and not c["b1_other"] and not c["b8_other"] and not c["b9_other"] and not c["b10_other"] and not c["b19_high"]
                and not c["b21_other"] and not c["b22_other"])
    if not const_ok:
        return ("constants", f"vendor-fixed fields differ: {c} body={body.hex()}")
    if len(body) != 24:
        return ("length", f"0x40 body has {len(body)} bytes, vendor layout has 24 (+ id + crc)")
    # injectivity (per process)
    key = bytes(body)
    tup = tuple(sorted((k, (v & 0x7F if k == "fan" else v)) for k, v in s.items()))
    prev = _SEEN.get(key)
    if prev is not None and prev != tup:
        return ("collision", f"two different states share body {body.hex()}: {dict(prev)} / {dict(tup)}")
    if len(_SEEN) < 400000:
        _SEEN[key] = tup
    return None


def replay(ctx, case):
    return check_case(case)


def _run_one(ctx, case):
    s = case["state"]
    nt = s != BASE
    ctx.case(hash((tuple(sorted(s.items())), case.get("via", "device"), case.get("caps"), case.get("propset", 0), case.get("aliases", False), case.get("inflight"), case.get("busy"), case.get("as_ints"))), nt, cls=case.get("cls", "state") + "/" + case.get("via", "device"))
    if case.get("caps") and case.get("via", "device") == "device":
        ctx.label(("after a short state report (" if case["caps"].startswith("short") else "after a report with all unmodelled bits set (" if case["caps"] == "noisy" else "after get_capabilities (") + case["caps"] + ")")
    if case.get("inflight") and case.get("via", "device") == "device":
        ctx.label("apply() while an earlier " + case["inflight"] + "() is in flight")
    ctx.sample(case.get("cls", "state"), case)
    return check_case(case)


def pairwise(fields: dict, rnd: random.Random) -> list:
    """Greedy deterministic pairwise covering array over the given field -> values table."""
    names = list(fields)
    need = set()
    for a, b in itertools.combinations(range(len(names)), 2):
        for va in fields[names[a]]:
            for vb in fields[names[b]]:
                need.add((a, va, b, vb))
    rows = []
    while need:
        best, best_cov = None, -1
        for _ in range(30):
            a, va, b, vb = next(iter(need)) if _ == 0 else rnd.choice(tuple(itertools.islice(need, 50)))
            row = {n: rnd.choice(fields[n]) for n in names}
            row[names[a]] = va
            row[names[b]] = vb
            cov = sum(1 for (x, vx, y, vy) in itertools.islice(need, 4000) if row[names[x]] == vx and row[names[y]] == vy)
            if cov > best_cov:
                best, best_cov = row, cov
        rows.append(best)
        need = {(x, vx, y, vy) for (x, vx, y, vy) in need if not (best[names[x]] == vx and best[names[y]] == vy)}
    return rows


def run(ctx) -> None:
    rnd = random.Random(ctx.seed * 7919 + 1)
    bg2 = {"power": True, "mode": rnd.randint(1, 6), "target": rnd.choice(gens.SETPOINTS), "fan": rnd.randint(1, 102),
           "swing": rnd.choice(gens.SWING_MEMBERS), "eco": rnd.random() < .5, "turbo": rnd.random() < .5, "sleep": rnd.random() < .5,
           "fahrenheit": rnd.random() < .5, "freeze": rnd.random() < .5, "follow_me": rnd.random() < .5, "purifier": rnd.random() < .5,
           "humidity": rnd.randint(0, 100), "aux": rnd.randint(0, 2), "beep": rnd.random() < .5}
    cases = []
    for bgname, bg in (("base", BASE), ("random-bg", bg2)):
        for t in gens.SETPOINTS:
            for mode in range(1, 7):
                cases.append({"cls": "setpoint x mode", "state": dict(bg, target=t, mode=mode)})
        for fan in range(128):
            cases.append({"cls": "fan byte", "state": dict(bg, fan=fan)})
        for h in range(128):
            cases.append({"cls": "humidity", "state": dict(bg, humidity=h)})
        for sw in gens.SWING_MEMBERS:
            for aux in range(3):
                cases.append({"cls": "swing x aux", "state": dict(bg, swing=sw, aux=aux)})
        for sw in range(16):     # the swing field is the low nibble (LR 0x3 | UD 0xC); bits 4-5 are the vendor constant 0x30
            cases.append({"cls": "raw swing", "via": "command", "state": dict(bg, swing=sw)})
        # all combinations of all nine flags x aux (covers every group of flags sharing a byte)
        for bits in range(512):
            st_ = dict(bg)
            for i, f in enumerate(FLAGS):
                st_[f] = bool(bits >> i & 1)
            st_["aux"] = bits % 3
            cases.append({"cls": "flag combinations", "state": st_})
    fields = {"power": [False, True], "mode": [1, 2, 3, 4, 5, 6], "target": [13.0, 16.0, 16.5, 17.0, 24.5, 30.0, 30.5, 31.0, 43.0, 43.5],
              "fan": [1, 20, 40, 60, 80, 100, 101, 102, 55, 127], "swing": gens.SWING_MEMBERS, "eco": [False, True], "turbo": [False, True],
              "sleep": [False, True], "fahrenheit": [False, True], "freeze": [False, True], "follow_me": [False, True],
              "purifier": [False, True], "humidity": [0, 1, 35, 64, 100, 127], "aux": [0, 1, 2], "beep": [False, True]}
    for row in pairwise(fields, random.Random(12345)):
        cases.append({"cls": "pairwise", "state": row})
    for i, case in enumerate(cases):
        if ctx.mine(i):
            # alternate the path: device API for most, command class for every 5th
            if "via" not in case and i % 5 == 4:
                case = dict(case, via="command")
            elif "via" not in case and i % 5 in (1, 3):
                case = dict(case, caps=["caps0", "caps1", "caps0+refresh", "short18", "short16", "short21", "short20", "noisy"][(i // 5) % 8])
            elif "via" not in case and i % 5 == 2:
                case = dict(case, propset=1 + (i // 5) % 2)
            elif "via" not in case and i % 20 == 0:
                case = dict(case, aliases=True)
            elif "via" not in case and i % 20 == 10:
                case = dict(case, inflight=["refresh", "apply"][(i // 20) % 2])
            elif "via" not in case and i % 20 == 15:
                case = dict(case, busy=["old", "old+new", "new+old"][(i // 20) % 3])
            elif "via" not in case and i % 20 == 5 and case["state"]["fan"] >= 1 and case["state"]["swing"] in gens.SWING_MEMBERS:
                case = dict(case, via="cli", propset=(i // 20) % 3)
                if (i // 20) % 4:
                    case["as_ints"] = ["float", "float:fan", "float:fsa"][(i // 20) % 4 - 1]
            if case.get("via", "device") == "device" and i % 7 == 3 and case["state"]["swing"] in gens.SWING_MEMBERS and 1 <= case["state"]["mode"] <= 6:
                case = dict(case, as_ints=True)       # (on top of whatever history the case has)
            ctx.check(case, lambda c: _run_one(ctx, c))
    ctx.sweep("per-field exhaustive sweeps x 2 backgrounds + flag combinations + pairwise array", len(cases), True)

    full = gens.settable_states().map(lambda s: dict(s, fan=s["fan"]))
    wide = st.fixed_dictionaries({"state": st.one_of(full, full.flatmap(lambda s: st.integers(0, 127).map(lambda f: dict(s, fan=f))),
                                                     full.flatmap(lambda s: st.integers(0, 127).map(lambda h: dict(s, humidity=h)))),
                                  "via": st.sampled_from(["device", "device", "device", "command", "command", "cli"]), "cls": st.just("random"),
                                  "caps": st.sampled_from([None, "caps0", "caps1", "caps0+refresh", "short16", "short19", "short21", "noisy", "noisy"]), "propset": st.sampled_from([0, 0, 1, 2]), "aliases": st.sampled_from([False, False, True]), "inflight": st.sampled_from([None, None, None, "refresh", "apply"]), "busy": st.sampled_from([None, None, None, "old", "old+new", "new+old"]), "as_ints": st.sampled_from([False, False, True])})
    ctx.hyp("random", wide, lambda c: _run_one(ctx, c), ctx.n(2500, 320000))
