"""C03  V2 packet integrity: altered or truncated packets rejected, never mis-decoded."""
from __future__ import annotations

import hashlib
import random

from hypothesis import strategies as st

from .. import gens, vloop
from .. import refcodec as rc
from ..devsim import SimDevice
from ..model_ac import ModelAC

ID = "C03"
LEVEL = "fault_enumeration"
SHARDS = {"quick": 8, "thorough": 16}
RULE = ("authentic packets from the independent V2 encoder (frame lengths 0,1,15,16,17,31,32,33,100,255 and random); faults: "
        "every single-bit flip at every bit position and every truncation length (exhaustive per packet), single-byte "
        "substitutions (8 values/position quick, all 255 for 3 packets thorough), random multi-byte corruptions, length-field "
        "rewrites; each fault class also replayed through LAN.send with the model device sending the corrupted packet (on a V2 connection - as the reply (to every transmission, or to the first one only with the default retry budget), right behind an authentic reply, or pushed while the connection is idle 0.05 s .. 2 h before the next exchange (all host clocks follow the virtual clock), or as the answer to a request that found an authentic packet waiting unread - and inside an intact V3 envelope on an authenticated V3 connection). Oracle: "
        "_Packet.decode raises ProtocolError (returning the original frame is tolerated and counted; any other result or "
        "exception type is a violation); in half of the cases the authentic packet is decoded first, as on a live connection, in a third of them from a reused bytearray into which the altered bytes are then written in place. Non-trivial: corrupted != authentic, >= 6 bytes, still starts with 5A5A. Distinct by (packet, fault).")
ASSUMPTIONS = ["fault model does not re-sign (a correctly re-signed packet is a different authentic packet; containment of those is C09)"]

LENGTHS = [0, 1, 15, 16, 17, 31, 32, 33, 100, 255]


def _frame(n: int, salt: int = 0) -> bytes:
    out = bytearray()
    c = 0
    while len(out) < n:
        out += hashlib.sha256(b"c03/%d/%d/%d" % (n, salt, c)).digest()
        c += 1
    return bytes(out[:n])


def _packet(case) -> bytes:
    frame = bytes.fromhex(case["frame"])
    return rc.v2_encode(case.get("id", 0x112233445566), frame, timestamp=bytes([1, 2, 3, 4, 5, 6, 24, 20]), magic=b"\x20\x80")


def corrupt(pkt: bytes, fault: list) -> bytes:
    kind = fault[0]
    b = bytearray(pkt)
    if kind == "flip":
        bit = fault[1] % (len(b) * 8)
        b[bit // 8] ^= 1 << (bit % 8)
    elif kind == "trunc":
        b = b[:fault[1] % len(b)]
    elif kind == "sub":
        pos = fault[1] % len(b)
        v = fault[2] & 0xFF
        if b[pos] == v:
            v ^= 0x01
        b[pos] = v
    elif kind == "multi":
        for pos, v in fault[1]:
            pos %= len(b)
            b[pos] ^= (v & 0xFF) or 1
    elif kind == "length":
        n = fault[1] & 0xFFFF
        if n == len(pkt):
            n ^= 1
        b[4] = n & 0xFF
        b[5] = n >> 8
    elif kind == "append":
        b += bytes.fromhex(fault[1])
        # trailing bytes after an intact packet: the packet itself is authentic (not a corruption of it)
    else:
        raise ValueError(kind)
    return bytes(b)


def check_case(case: dict):
    from msmart.lan import LAN, ProtocolError, _Packet
    frame = bytes.fromhex(case["frame"])
    pkt = _packet(case)
    bad = corrupt(pkt, case["fault"])
    if bad == pkt:
        return None
    if case.get("via") in ("send", "send3"):
        net = vloop.Net()
        out = {}
        v3 = case["via"] == "send3"
        tok, key = hashlib.sha512(b"c03").digest(), hashlib.sha256(b"c03").digest()

        async def main(loop):
            dev = SimDevice(loop, version=3 if v3 else 2, device_id=1, ac=ModelAC(), token=tok, key=key)
            if v3:
                # the altered V2 packet travels inside an intact, correctly tagged V3 envelope
                def on_data(dev_, conn, fr):
                    pkt3 = rc.v3_encode_response(conn.session_keys[-1], conn.resp_counter, bad)
                    conn.resp_counter += 1
                    return ("raw", pkt3)
                dev.on_data = on_data
            elif case.get("arrival") == "behind":
                # the altered packet arrives right behind an authentic reply (own segment, same instant)
                def on_data2(dev_, conn, fr):
                    conn.send_stream(pkt, delay=dev_.latency)
                    conn.send_stream(bad, delay=dev_.latency)
                    return ("drop",)
                dev.on_data = on_data2
            elif case.get("arrival") in ("idle", "queued"):
                dev.default_action = ("raw", pkt)
            elif case.get("arrival") == "once":
                # only the answer to the first transmission is altered; had the client asked again it would get the authentic one
                dev.script = [("raw", bad)]
                dev.default_action = ("raw", pkt)
            else:
                dev.default_action = ("raw", bad)
            net.listen("10.0.0.9", 6444, dev)
            lan = LAN("10.0.0.9", 6444, 1)
            try:
                if v3:
                    await lan.authenticate(tok, key)
                if case.get("arrival") == "idle" and not v3:
                    # a clean exchange first; the altered packet is pushed while the connection is idle, then the next exchange
                    import asyncio
                    await lan.send(_frame(20), retries=1)
                    dev.conns[-1].send_stream(bad, delay=0.01)
                    await asyncio.sleep(case.get("idle_wait", 0.05))      # (however long it sits there unread)
                if case.get("arrival") == "queued" and not v3:
                    # a clean exchange first; an authentic packet (a pushed report) arrives while the connection is idle and sits
                    # unread; the answer to the next request is the altered packet
                    import asyncio
                    await lan.send(_frame(20), retries=1)
                    dev.conns[-1].send_stream(pkt, delay=0.01)
                    await asyncio.sleep(case.get("idle_wait", 0.05))
                    dev.default_action = ("raw", bad)
                if case.get("arrival") == "once":
                    out["frames"] = await lan.send(_frame(20))          # default retry budget
                    out["tx"] = len(dev.transmissions)
                else:
                    out["frames"] = await lan.send(_frame(20), retries=1)
            except Exception as e:
                out["exc"] = e
            lan._disconnect()

        vloop.run(main, net)
        e = out.get("exc")
        if isinstance(e, ProtocolError):
            return None
        if len(bad) == 0 and isinstance(e, TimeoutError):
            return None          # an empty segment is no data at all
        if e is not None:
            return (f"send/raises/{type(e).__name__}", f"LAN.send raised {e!r} for fault {case['fault']}")
        got = [bytes(f) for f in out["frames"]]
        if case.get("arrival") == "once" and not v3 and len(bad) > 0:
            return ("send/altered-reply-retried", f"the altered reply was discarded and the request sent again ({out.get('tx')} transmissions): LAN.send returned {[g.hex()[:30] for g in got]} (fault {case['fault']})")
        if case.get("arrival") == "queued" and not v3 and len(bad) > 0:
            return ("send/altered-reply-masked", f"the answer was an altered packet but LAN.send returned the authentic packet that had been waiting unread: {[g.hex()[:30] for g in got]} (fault {case['fault']})")
        if case.get("arrival") in ("behind", "idle") and not v3 and len(bad) > 0:
            return ("send/altered-packet-ignored", f"an altered packet that arrived {case['arrival']} the authentic traffic was dropped silently: LAN.send returned {[g.hex()[:30] for g in got]} (fault {case['fault']})")
        if got == [frame]:
            return None if case.get("tolerate_original", True) else ("send/original", "returned original")
        return ("send/misdecoded", f"LAN.send returned {[g.hex() for g in got]} for corrupted packet (authentic frame {frame.hex()})")
    if case.get("prime", True):
        # what happens on a real connection: the authentic packet was received (and accepted) before the altered one
        try:
            if bytes(_Packet.decode(pkt)) != frame:
                return ("decode/authentic-misdecoded", "authentic packet not decoded to its frame")
        except Exception as e:
            return (f"decode/authentic-rejected/{type(e).__name__}", f"authentic packet rejected: {e!r}")
    target = bad
    if case.get("inplace") and len(bad) == len(pkt):
        # the receive buffer is a reused bytearray: the authentic packet was decoded from it, then the altered bytes were written
        # into the same object
        buf = bytearray(pkt)
        try:
            _Packet.decode(buf)
        except Exception:
            pass
        buf[:] = bad
        target = buf
    try:
        got = _Packet.decode(target)
    except ProtocolError:
        return None
    except Exception as e:
        return (f"decode/raises/{type(e).__name__}", f"_Packet.decode raised {e!r} for fault {case['fault']} on frame len {len(frame)}")
    if bytes(got) == frame:
        return ("decode/accepted-original", f"fault {case['fault']} invisible: original frame returned")
    return ("decode/misdecoded", f"fault {case['fault']}: decoded {bytes(got).hex()} instead of rejecting (authentic {frame.hex()})")


def replay(ctx, case):
    return check_case(case)


def _run_one(ctx, case, pkt_len=None):
    pkt = _packet(case)
    bad = corrupt(pkt, case["fault"])
    nt = bad != pkt and len(bad) >= 6 and bad[:2] == b"\x5a\x5a"
    ctx.case(hash((case["frame"], case.get("id", 0), repr(case["fault"]), case.get("via", ""), case.get("arrival"), case.get("idle_wait"))), nt,
             cls=case["fault"][0] + ("/send" if case.get("via") else ""))
    ctx.sample(case["fault"][0] + ("/send" if case.get("via") else ""), case)
    return check_case(case)


def run(ctx) -> None:
    rnd = random.Random(ctx.seed)          # sub-sampling choices outside Hypothesis (quick tier only)
    n = 0
    lengths = LENGTHS
    for L in lengths:
        frame = _frame(L)
        base = {"frame": frame.hex(), "id": 0x112233445566}
        plen = len(_packet(base))
        # every bit flip
        for bit in range(plen * 8):
            n += 1
            if ctx.mine(n):
                case = dict(base, fault=["flip", bit], prime=bool((bit // 8) % 2), inplace=bit % 3 == 0)
                ctx.check(case, lambda c: _run_one(ctx, c))
        # every truncation length
        for k in range(plen):
            n += 1
            if ctx.mine(n):
                case = dict(base, fault=["trunc", k])
                ctx.check(case, lambda c: _run_one(ctx, c))
    ctx.sweep("all single-bit flips and truncations of 10 packets", n, True)

    # byte substitutions
    m = 0
    full = (not ctx.quick)
    for idx, L in enumerate(lengths):
        frame = _frame(L, 1)
        base = {"frame": frame.hex(), "id": 0xA1B2C3D4E5F6}
        pkt = _packet(base)
        all_values = full and idx in (1, 4, 6)
        if not all_values and not ctx.quick and idx not in (0, 3, 9):
            pass
        vals_per_pos = 255 if all_values else 8
        for pos in range(len(pkt)):
            if all_values:
                values = [v for v in range(256) if v != pkt[pos]]
            else:
                values = [pkt[pos] ^ 0xFF, 0x00, 0xFF, 0x5A, (pkt[pos] + 1) & 0xFF, (pkt[pos] - 1) & 0xFF,
                          rnd.randrange(256), rnd.randrange(256)]
                # values with a meaning elsewhere in the protocol stack (frame start, V3 marker, type bytes, pad bytes)
                values += [0xAA, 0x83, 0x70, 0x01, 0x11, 0x10, 0x20] if pos < 48 or pos >= len(pkt) - 17 else [0xAA, 0x10]
                vals_per_pos = len(values)
            for v_ in values[:vals_per_pos]:
                m += 1
                if ctx.mine(m):
                    case = dict(base, fault=["sub", pos, v_])
                    ctx.check(case, lambda c: _run_one(ctx, c))
    ctx.sweep("single-byte substitutions", m, full)

    # length-field rewrites: every 16 bit value for one packet (thorough), boundary values (quick)
    base = {"frame": _frame(33, 2).hex(), "id": 7}
    plen = len(_packet(base))
    values = range(65536) if not ctx.quick else sorted(set(list(range(0, 130)) + [plen - 1, plen + 1, 255, 256, 0x7FFF, 0xFFFF, 0x5A5A]))
    q = 0
    for val in values:
        q += 1
        if ctx.mine(q):
            case = dict(base, fault=["length", val])
            ctx.check(case, lambda c: _run_one(ctx, c))
    ctx.sweep("length field rewrites", q, not ctx.quick)

    # a sample of each fault class through LAN.send
    s = 0
    for L in (0, 16, 33, 100):
        base = {"frame": _frame(L, 3).hex(), "id": 9, "via": "send"}
        plen = len(_packet(base))
        faults = [["flip", b] for b in range(0, plen * 8, 7 if ctx.quick else 1)] + [["trunc", k] for k in range(0, plen, 3 if ctx.quick else 1)] + \
                 [["sub", p, 0xFF] for p in range(0, plen, 5 if ctx.quick else 1)] + [["length", x] for x in (0, 5, 6, 40, 55, 56, 57, plen - 1, plen + 1, 0xFFFF)]
        for f in faults:
            s += 1
            if ctx.mine(s):
                case = dict(base, fault=f, via="send3" if s % 3 == 0 else "send")
                if s % 3 and s % 4 in (1, 2, 3):
                    case["arrival"] = ["behind", "idle", "once"][s % 4 - 1]
                elif s % 3 and s % 8 == 0:
                    case["arrival"] = "queued"
                if case.get("arrival") in ("idle", "queued"):
                    case["idle_wait"] = [0.05, 2.6, 30.0, 7200.0][(s // 4) % 4]
                ctx.check(case, lambda c: _run_one(ctx, c))
    ctx.sweep("fault classes through LAN.send", s, not ctx.quick)

    hexb = lambda st_: st_.map(lambda b: b.hex())
    fault = st.one_of(
        st.tuples(st.just("flip"), st.integers(0, 8 * 400)).map(list),
        st.tuples(st.just("trunc"), st.integers(0, 400)).map(list),
        st.tuples(st.just("sub"), st.integers(0, 400), st.integers(0, 255)).map(list),
        st.tuples(st.just("length"), st.integers(0, 65535)).map(list),
        st.tuples(st.just("multi"), st.lists(st.tuples(st.integers(0, 400), st.integers(1, 255)).map(list), min_size=2, max_size=8)).map(list),
    )
    cases = st.fixed_dictionaries({"frame": hexb(gens.frames_bytes(255)), "id": gens.device_ids(64), "fault": fault, "prime": st.booleans(), "inplace": st.booleans()})
    send_cases = st.fixed_dictionaries({"frame": hexb(gens.frames_bytes(120)), "id": gens.device_ids(64), "fault": fault, "via": st.sampled_from(["send", "send3"])},
                                       optional={"arrival": st.sampled_from(["reply", "behind", "idle", "once", "queued"]), "idle_wait": st.sampled_from([0.05, 1.9, 2.6, 30.0, 7200.0])})

    def runner(case):
        return _run_one(ctx, case)

    ctx.hyp("random", cases, runner, ctx.n(4000, 800000))
    ctx.hyp("random-send", send_cases, runner, ctx.n(400, 64000))
