"""C04  V3 stream reassembly is segmentation-independent."""
from __future__ import annotations

import hashlib
import itertools

from hypothesis import strategies as st

from .. import gens, vloop
from .. import refcodec as rc
from ..devsim import SimDevice
from ..model_ac import ModelAC

ID = "C04"
LEVEL = "exploration"
SHARDS = {"quick": 8, "thorough": 16}
RULE = ("level 1: a stream of 1..4 V3 packets (payload sizes 0..40 exhaustive part, up to 5000/65527 random part; payload bytes "
        "biased to contain 8370/83; optional marker-free garbage before any packet) is fed to a fresh _LanProtocolV3.data_received "
        "in chunks; after each chunk the receive queue is drained and must contain exactly the packets whose last byte lies in "
        "that chunk, in order, byte-identical. All cut sets of size <= 3 exhaustively for short streams, random cut sets, "
        "byte-by-byte, single chunk; in a quarter of the cases another protocol object of the same process was left with an unfinished packet or junk beforehand. level 2: LAN.send on an authenticated connection; send must return at the virtual time of "
        "the chunk carrying the last byte of the first packet (also when the reply straddles a 2 s read timeout and a retransmission happens in between) and two sends together return the device's frame sequence. level 3: the handshake reply reaches the client in two segments, before / around / after the 2 s retry deadline of LAN.authenticate (12 cut positions x 11 timings); every reply the device sent is handed to the receive queue when its last byte arrives. "
        "Non-trivial: a cut strictly inside a packet header, or >=2 packets in one chunk, or garbage present, or payload contains "
        "the marker. Distinct by (stream, cuts).")
ASSUMPTIONS = ["garbage prefixes are marker-free (the statement's domain); a prefix may end in 0x83 only if the next byte is not 0x70"]


def _payload(n: int, salt: int, marker: bool) -> bytes:
    out = bytearray()
    c = 0
    while len(out) < n:
        out += hashlib.sha256(b"c04/%d/%d/%d" % (n, salt, c)).digest()
        c += 1
    out = out[:n]
    if marker and n >= 2:
        pos = salt % (n - 1)
        out[pos:pos + 2] = b"\x83\x70"
    return bytes(out)


def build_stream(case: dict):
    """Returns (stream bytes, [(start, end, packet bytes)])."""
    stream = bytearray()
    spans = []
    for item in case["items"]:
        g = bytes.fromhex(item.get("garbage", ""))
        stream += g
        body = bytes.fromhex(item["body"])
        # header: 8370 size(2) 20 type  then 2 counter bytes + body ; size = len(body)
        pkt = rc.v3_header(len(body), item.get("pad", 0), item.get("type", 3)) + bytes.fromhex(item.get("cnt", "0000")) + body
        spans.append((len(stream), len(stream) + len(pkt), pkt))
        stream += pkt
    return bytes(stream), spans


def _drain(proto) -> list:
    out = []
    while True:
        try:
            out.append(proto._queue.get_nowait())
        except Exception:
            return out


def check_level1(case: dict):
    from msmart.lan import _LanProtocolV3
    stream, spans = build_stream(case)
    cuts = sorted({c for c in case["cuts"] if 0 < c < len(stream)})
    bounds = [0] + cuts + [len(stream)]

    class _T:
        def get_extra_info(self, *_a):
            return ("10.0.0.1", 6444)

        def is_closing(self):
            return False

    other = None
    if case.get("other"):
        # another connection of the same process (e.g. the previous, dropped one) still holds an unfinished packet / junk
        other = _LanProtocolV3()
        other.connection_made(_T())
        other.data_received(bytes.fromhex(case["other"]))
        _drain(other)
    proto = _LanProtocolV3()
    proto.connection_made(_T())
    delivered = 0
    for a, b in zip(bounds, bounds[1:]):
        chunk = stream[a:b]
        try:
            proto.data_received(chunk)
        except Exception as e:
            return (f"l1/raises/{type(e).__name__}", f"data_received raised {e!r} at chunk [{a}:{b}]")
        got = _drain(proto)
        want = [p for (s, e, p) in spans if a < e <= b]
        if got != want:
            return ("l1/delivery", f"after chunk [{a}:{b}] got {[g.hex()[:40] for g in got]} want {[w.hex()[:40] for w in want]} "
                    f"(stream {len(stream)} bytes, cuts {cuts})")
        delivered += len(got)
    if delivered != len(spans):
        return ("l1/count", f"{delivered} of {len(spans)} packets delivered")
    return None


MARK = b"\xaa\x55MARK"


def check_level2(case: dict):
    """LAN.send against the model: reply frames written in chosen segments at chosen times."""
    from msmart.lan import LAN
    key = hashlib.sha256(b"c04 key").digest()
    token = hashlib.sha512(b"c04 tok").digest()
    frames = [bytes.fromhex(f) for f in case["frames"]]
    # the frame that answers the second send must be distinguishable from every generated frame
    MARK = next(m for m in (b"\xaa\x55MARK", b"\xaa\x55MARK1", b"\xaa\x55MARK2", b"\xaa\x55MARK3", b"\xaa\x55MARK4") if m not in frames)
    net = vloop.Net()
    out = {}

    async def main(loop):
        dev = SimDevice(loop, version=3, device_id=5, token=token, key=key, ac=ModelAC())
        info = {}

        def on_data(dev_, conn, frame):
            if "done" in info:
                return ("frames", [MARK], {})    # second send: answered with a marker frame, leftovers come first
            info["done"] = True
            wire = [dev_.wrap(conn, f) for f in frames]
            stream = b"".join(wire)
            info["ends"] = list(itertools.accumulate(len(w) for w in wire))
            info["len"] = len(stream)
            cuts = sorted({c for c in case["cuts"] if 0 < c < len(stream)})
            bounds = [0] + cuts + [len(stream)]
            t = case["delay"]
            info["chunk_times"] = []
            for a, b in zip(bounds, bounds[1:]):
                conn.tr.feed_later(t, stream[a:b])
                info["chunk_times"].append((b, loop.time() + t))
                t += case["gap"]
            return ("drop",)

        dev.on_data = on_data
        net.listen("10.0.0.9", 6444, dev)
        lan = LAN("10.0.0.9", 6444, 5)
        await lan.authenticate(token, key)
        try:
            out["first"] = [bytes(x) for x in await lan.send(b"\xaa" + bytes(12), retries=3)]
            out["t_first"] = loop.time()
            await loop_sleep(loop, case["gap"] * (len(case["cuts"]) + 2) + 2.5)
            out["second"] = [bytes(x) for x in await lan.send(b"\xaa" + bytes(12), retries=1)]
        except Exception as e:
            out["exc"] = e
        out["info"] = info
        lan._disconnect()

    async def loop_sleep(loop, d):
        import asyncio
        await asyncio.sleep(d)

    vloop.run(main, net)
    if "exc" in out:
        return (f"l2/raises/{type(out['exc']).__name__}", f"{out['exc']!r}")
    info = out["info"]
    first_end = info["ends"][0]
    t_want = next(t for (b, t) in info["chunk_times"] if b >= first_end)
    if t_want - info["chunk_times"][0][1] + case["delay"] >= 6.0:
        return None          # the reply takes longer than the whole retry budget: timing out is correct (C08)
    if abs(out["t_first"] - t_want) > 1e-6:
        return ("l2/latency", f"send returned at t={out['t_first']:.4f}, last byte of first packet arrived at t={t_want:.4f} "
                f"(chunks {info['chunk_times']}, ends {info['ends']})")
    got = out["first"] + out["second"]
    if got[-1:] != [MARK]:
        return ("l2/second", f"second send returned {[g.hex() for g in out['second']]} without its own reply")
    while got[-1:] == [MARK]:      # answers to retransmissions (when the reply straddled the read timeout) and to the second send
        got = got[:-1]
    if got != frames:
        return ("l2/frames", f"two sends returned {[g.hex() for g in got]} != device sequence {case['frames']}")
    if not out["first"] or out["first"][0] != frames[0]:
        return ("l2/first", "first send did not start with the first frame")
    return None


def check_level3(case: dict):
    """The handshake reply itself is a V3 packet on the stream: it reaches the client in two segments, possibly with the 2 s
    retry deadline of LAN.authenticate (a new attempt: the request is written again) in between.  Every packet the device sent
    must be handed to the receive queue at the time its last byte arrived."""
    from msmart.lan import LAN
    key = hashlib.sha256(b"c04 key").digest()
    token = hashlib.sha512(b"c04 tok").digest()
    net = vloop.Net()
    out = {"delivered": []}

    async def main(loop):
        dev = SimDevice(loop, version=3, device_id=5, token=token, key=key, ac=ModelAC())
        dev.hs_script = [("genuine", {"delay": case["delay"], "cuts": [case["cut"]], "gap": case["gap"]})]
        net.listen("10.0.0.9", 6444, dev)
        lan = LAN("10.0.0.9", 6444, 5)
        lan._protocol_version = 3
        await lan._connect()
        q = lan._protocol._queue
        put = q.put_nowait

        def spy(item):
            out["delivered"].append((round(loop.time(), 6), len(item)))
            return put(item)
        q.put_nowait = spy
        t0 = loop.time()
        try:
            await lan.authenticate(token, key)
        except Exception as e:
            out["exc"] = e
        import asyncio
        await asyncio.sleep(3.0)
        out["requests"] = [round(e.t - t0, 6) for e in dev.log if e.kind == "hs_req"]
        out["t0"] = t0
        lan._disconnect()

    vloop.run(main, net)
    # reference: reply k answers request k; reply 1 is complete when its second segment arrives, later replies are prompt
    # (latency 0.05 s) but cannot overtake earlier bytes on the stream
    first_done = case["delay"] + case["gap"]
    want = []
    last = 0.0
    for k, t_req in enumerate(out["requests"]):
        arrive = t_req + (first_done if k == 0 else 0.05)
        arrive = max(arrive, last)
        last = arrive
        want.append((round(out["t0"] + arrive, 6), 72))
    got = [(t, n) for t, n in out["delivered"]]
    if len(got) != len(want) or any(abs(g[0] - w[0]) > 1e-4 or g[1] != w[1] for g, w in zip(got, want)):
        return ("l3/delivery", f"handshake replies handed to the receive queue at {got}, the device's packets were complete at {want} "
                f"(reply cut at {case['cut']}, first segment after {case['delay']} s, second {case['gap']} s later; requests at {out['requests']})")
    return None


def check_case(case: dict):
    if case.get("level", 1) == 3:
        return check_level3(case)
    if case.get("level", 1) == 2:
        return check_level2(case)
    return check_level1(case)


def replay(ctx, case):
    return check_case(case)


def _nontrivial_l1(case) -> bool:
    stream, spans = build_stream(case)
    cuts = sorted({c for c in case["cuts"] if 0 < c < len(stream)})
    if any(i.get("garbage") for i in case["items"]):
        return True
    if any(b"\x83\x70" in bytes.fromhex(i["body"]) for i in case["items"]):
        return True
    for (s, e, p) in spans:
        if any(s < c < s + 8 for c in cuts):
            return True
    bounds = [0] + cuts + [len(stream)]
    for a, b in zip(bounds, bounds[1:]):
        if sum(1 for (s, e, p) in spans if a <= s and e <= b) >= 2:
            return True
    return False


def _run_l1(ctx, case):
    nt = _nontrivial_l1(case)
    ctx.case(hash((tuple((i.get("garbage", ""), i["body"]) for i in case["items"]), tuple(case["cuts"]))), nt,
             cls=f"l1/{len(case['items'])}pkt/{min(len(case['cuts']), 4)}cuts")
    ctx.sample(f"l1/{'nt' if nt else 'trivial'}/{len(case['items'])}pkt", case)
    return check_level1(case)


def _streams_exhaustive(n_streams: int):
    """Deterministic short streams for the exhaustive <=3-cut sweep."""
    out = []
    sizes = [0, 1, 2, 5, 9, 17, 24, 40]
    for k in range(n_streams):
        npk = 1 + k % 4
        items = []
        for j in range(npk):
            sz = sizes[(k * 3 + j * 5) % len(sizes)]
            if npk >= 3:
                sz = min(sz, 17)
            body = _payload(sz, k + j, marker=((k + j) % 3 == 0))
            g = b""
            if (k + j) % 4 == 1:
                g = bytes([0x11, 0x83, 0x22][: 1 + (k % 3)])
            elif (k + j) % 7 == 3:
                g = b"\x00\x70\x83"
            # a garbage prefix ending in 0x83 directly before 8370 would read 83 83 70: fine (marker-free: no "8370" inside)
            items.append({"body": body.hex(), "garbage": g.hex(), "cnt": "%04x" % ((k + j) & 0xFFFF), "type": [3, 1, 15, 3][(k + j) % 4]})
        out.append({"items": items})
    # payloads that carry a complete, well-formed V3 packet inside (a relayed / quoted packet): every cut set of size <= 3 includes the
    # cuts exactly at the embedded packet's first and last byte
    inner = bytes.fromhex("8370000420030009aabbccdd")
    out.append({"items": [{"body": (b"\x01\x02" + inner + b"\x03").hex(), "garbage": "", "cnt": "0001", "type": 3}, {"body": "a1b2", "garbage": "", "cnt": "0002", "type": 3}]})
    out.append({"items": [{"body": (inner + inner).hex(), "garbage": "11", "cnt": "0003", "type": 3}]})
    return out


def run(ctx) -> None:
    nstreams = 6 if ctx.quick else 200        # (+ 2 streams with embedded packets, always)
    total = 0
    for si, base in enumerate(_streams_exhaustive(nstreams)):
        stream, _ = build_stream(dict(base, cuts=[]))
        L = len(stream)
        if L > 120:
            continue
        positions = range(1, L)
        combos = itertools.chain([()], ((a,) for a in positions), itertools.combinations(positions, 2),
                                 itertools.combinations(positions, 3))
        for cuts in combos:
            total += 1
            if not ctx.mine(total):
                continue
            case = dict(base, cuts=list(cuts))
            if total % 4 == 0:
                case["other"] = ["8370002020030000aabbcc", "83", "0011223344", "837000ff2003" + "00" * 40][(total // 4) % 4]
            ctx.check(case, lambda c: _run_l1(ctx, c))
        # byte by byte
        case = dict(base, cuts=list(range(1, L)))
        if ctx.mine(si):
            ctx.check(case, lambda c: _run_l1(ctx, c))
    ctx.sweep("all cut sets of size <=3 for short streams", total, True)

    # every boundary of the 16-bit size field: low byte near 0x00/0xFF for every high byte up to 16 (plus the largest sizes),
    # a packet of that size followed by a small one, whole / cut in the header / cut near the end
    z = 0
    sizes = sorted({(hi << 8) | lo for hi in range(0, 17) for lo in (0x00, 0x01, 0x07, 0x08, 0xF7, 0xF8, 0xF9, 0xFE, 0xFF)} | {0x7FFF, 0x8000, 0xFFF0, 0xFFF7})
    for size in sizes:
        for cuts in ([], [3], [size + 7], [5, size // 2 + 8, size + 9]):
            z += 1
            if not ctx.mine(z) or (ctx.quick and size > 0x1100 and cuts):
                continue
            case = {"level": 1, "items": [{"body": _payload(size, size & 0xFF, size % 3 == 0).hex(), "garbage": "", "cnt": "%04x" % (size & 0xFFFF), "type": 3},
                                          {"body": "a1b2c3", "garbage": "", "cnt": "0001", "type": 3}], "cuts": cuts}
            ctx.check(case, lambda c: _run_l1(ctx, c))
    ctx.sweep("size-field byte boundaries x segmentations", z, True)

    hexb = lambda s: s.map(lambda b: b.hex())
    body = st.one_of(gens.marker_bytes(64), st.binary(max_size=40),
                     st.integers(0, 5000).flatmap(lambda n: st.binary(min_size=n, max_size=n)),
                     st.sampled_from([0, 1, 65527 - 8, 4096]).map(lambda n: bytes([0x83, 0x70] * (n // 2) + [0x83] * (n % 2))))
    garbage = st.one_of(st.just(b""), st.just(b""), st.binary(max_size=12).map(lambda g: g.replace(b"\x83\x70", b"\x83\x71")))
    item = st.fixed_dictionaries({"body": hexb(body), "garbage": hexb(garbage), "cnt": hexb(st.binary(min_size=2, max_size=2)),
                                  "type": st.sampled_from([3, 3, 1, 15, 0, 6])})

    def fix_items(items):
        # keep the stream marker-free outside packets: garbage ending in 0x83 followed by... the next packet starts with 0x83 0x70 -> fine
        return items

    streams = st.lists(item, min_size=1, max_size=4).map(fix_items)
    others = st.sampled_from([None, None, "8370002020030000aabbcc", "83", "0011223344", "837000ff2003" + "00" * 40, "8370"])
    l1_cases = st.builds(lambda items, cuts, mode, other: {"other": other, "items": items, "cuts": cuts if mode != "bytes" else list(range(1, min(3000, sum(len(i["body"]) // 2 + len(i["garbage"]) // 2 + 8 for i in items)))), "level": 1},
                         streams, st.lists(st.integers(1, 6000), max_size=12, unique=True).map(sorted), st.sampled_from(["cuts", "cuts", "cuts", "bytes", "one"]), others)

    ctx.hyp("l1-random", l1_cases, lambda c: _run_l1(ctx, c), ctx.n(3000, 320000))

    l2_cases = st.fixed_dictionaries({
        "level": st.just(2),
        "frames": st.lists(hexb(gens.frames_bytes(60)), min_size=1, max_size=4),
        "cuts": st.lists(st.integers(1, 700), max_size=8, unique=True).map(sorted),
        "delay": st.sampled_from([0.01, 0.05, 0.5, 1.5, 1.9, 1.99]),
        "gap": st.sampled_from([0.0, 0.001, 0.01, 0.05, 0.2]),
    })

    def run_l2(case):
        ctx.case(hash((tuple(case["frames"]), tuple(case["cuts"]), case["delay"], case["gap"])), bool(case["cuts"]) or len(case["frames"]) > 1, cls="l2")
        ctx.sample("l2", case)
        return check_level2(case)

    ctx.hyp("l2", l2_cases, run_l2, ctx.n(300, 32000))

    # level 3: the handshake reply in two segments around the 2 s retry deadline of the authentication
    t3 = 0
    for cut in (1, 2, 5, 6, 7, 8, 9, 30, 40, 41, 70, 71):
        for delay, gap in ((0.05, 0.0), (0.05, 0.5), (1.0, 0.5), (1.9, 0.05), (1.9, 0.2), (1.99, 0.02), (1.5, 1.0), (0.05, 2.1), (1.9, 1.5), (1.99, 1.9), (1.0, 2.9)):
            t3 += 1
            if ctx.mine(t3):
                case = {"level": 3, "cut": cut, "delay": delay, "gap": gap}
                ctx.case(hash(("l3", cut, delay, gap)), delay + gap > 2.0, cls="l3")
                ctx.sample("l3", case)
                ctx.check(case, check_level3)
    ctx.sweep("handshake reply in two segments x cut position x timing around the 2 s retry deadline", t3, True)
    # coverage-guided byte-level search (atheris/libFuzzer) over packets, marker-free garbage and cut points; an additional
    # search, the verdict never depends on it being available
    from .. import fuzzrun
    if not ctx.quick or ctx.shard < 2:
        fuzzrun.run_atheris(ctx, "c04", 40000 if ctx.quick else 1500000, check_case, max_len=1400)
