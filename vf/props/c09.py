"""C09  Transport containment: peer bytes cause only protocol errors or timeouts."""
from __future__ import annotations

import asyncio
import hashlib

from hypothesis import strategies as st

from .. import gens, hostile, vloop
from .. import refcodec as rc
from ..devsim import SimDevice
from ..model_ac import ModelAC

ID = "C09"
LEVEL = "exploration"
SHARDS = {"quick": 8, "thorough": 16}
RULE = ("(also: refreshes consisting of several queries with the hostile answer to one of them followed by silence; the first call abandoned by its caller at each protocol phase and followed by calls nobody cancels) a hostile packet recipe (templates: V2 response, V3 handshake reply, V3 encrypted response, V3 error packet, raw bytes; "
        "operators: header fields set to boundary values, ciphertext length not a multiple of 16, valid signature/tag recomputed "
        "over random or truncated ciphertext, bad PKCS#7 under a valid signature, empty payload, every type nibble, wrong key, "
        "clear data, splice/concatenate, bursts of 1100/2600 identical small packets in one delivery for every type nibble, arbitrary segmentation) is sent by the model device at a protocol phase (V2 send; V3 "
        "handshake, data after authentication, re-authentication after 12 h; or pushed unsolicited on an idle established connection before the next call, after which the peer may stay silent for the whole retry budget; optionally the hostile bytes follow a genuine handshake reply within the 1 s settle pause; optionally the same call is repeated once or twice afterwards with the peer answering normally) to one API level (LAN.authenticate/LAN.send, "
        "Device.authenticate/Device._send_command, AirConditioner.refresh). Oracle: LAN calls end in list-of-bytes / ProtocolError "
        "(incl. AuthenticationError) / TimeoutError; Device.authenticate only AuthenticationError; Device._send_command returns a "
        "list; refresh() does not raise when the transport produced no frame. Non-trivial: hostile bytes pass marker+minimum "
        "length of their layer or carry a valid signature/tag. Configuration: a quarter of the cases run with DEBUG logging effective (as with the CLI's --debug). After its bytes the peer may close or reset the connection. Timing: the hostile packet may arrive anywhere in, or within a loop iteration of the end of, the 2 s read window (loop run with 1 ms processing latency per iteration). Distinct by (recipe, phase, api, cuts, delay).")
ASSUMPTIONS = ["exceptions raised inside protocol callbacks do not reach the caller; they are counted, not judged"]

TOKEN = hashlib.sha512(b"c09 token").digest()
KEY = hashlib.sha256(b"c09 key").digest()
FRAME = bytes.fromhex("aa21ac8d000000000003418100ff03ff000200000000000000000000000003016971")


def check_case(case: dict):
    from msmart.base_device import Device
    from msmart.device import AirConditioner as AC
    from msmart.device.AC.command import GetStateCommand
    from msmart.lan import LAN, AuthenticationError, ProtocolError
    version = case["version"]
    phase = case["phase"]
    api = case["api"]
    recipe = case["hostile"]
    cuts = case.get("cuts", [])
    net = vloop.Net()
    out = {"frames_seen": 0}

    async def main(loop):
        dev = SimDevice(loop, version=version, device_id=9, token=TOKEN, key=KEY, ac=ModelAC())
        net.listen("10.0.0.9", 6444, dev)
        armed = {"on": False}

        def on_data(dev_, conn, frame):
            if armed["on"] and phase in ("send",):
                armed["on"] = False
                key = conn.session_keys[-1] if conn.session_keys else None
                data = hostile.build(recipe, key)
                out["hostile"] = data
                conn.send_stream(data, delay=case.get("delay", dev_.latency), cuts=cuts)
                if case.get("then_close") is not None:
                    conn.close(delay=case.get("delay", dev_.latency) + case["then_close"], reset=bool(case.get("reset")))
                if case.get("silent_after"):
                    quiet["on"] = True       # ... and from then on the peer says nothing at all
                return ("drop",)
            if quiet["on"]:
                return ("drop",)
            return None

        quiet = {"on": False}
        dev.on_data = on_data

        def arm_handshake():
            # hostile reply to the next handshake request
            class _Lazy:
                pass
            orig = dev._handshake

            def hs(conn, p):
                if armed["on"] and case.get("after_hs") is not None:
                    # the handshake is answered genuinely; the hostile bytes follow a moment later, while the client is still in
                    # the settle pause that follows a handshake (the authentication may be explicit or part of a send)
                    armed["on"] = False
                    orig(conn, p)
                    key = conn.session_keys[-1] if conn.session_keys else None
                    data = hostile.build(recipe, key)
                    out["hostile"] = data
                    conn.send_stream(data, delay=dev.latency + case["after_hs"], cuts=cuts)
                    return
                if armed["on"]:
                    armed["on"] = False
                    key = conn.session_keys[-1] if conn.session_keys else None
                    data = hostile.build(recipe, key)
                    out["hostile"] = data
                    conn.send_stream(data, delay=case.get("delay", dev.latency), cuts=cuts)
                    if case.get("then_close") is not None:
                        conn.close(delay=case.get("delay", dev.latency) + case["then_close"], reset=bool(case.get("reset")))
                    return
                orig(conn, p)
            dev._handshake = hs

        if api == "lan":
            obj = LAN("10.0.0.9", 6444, 9)
            lan = obj
        elif api == "device":
            from msmart.const import DeviceType
            obj = Device(ip="10.0.0.9", port=6444, device_id=9, device_type=DeviceType.AIR_CONDITIONER)
            lan = obj._lan
        else:
            obj = AC(ip="10.0.0.9", port=6444, device_id=9)
            lan = obj._lan
            if case.get("multi"):
                obj.enable_energy_usage_requests = True      # configuration: a refresh consists of several queries

        # spy on frames produced by the transport (instance attribute, harness side)
        orig_send = lan.send

        async def spy(*a, **kw):
            r = await orig_send(*a, **kw)
            out["frames_seen"] += len(r)
            return r
        if api == "ac":
            lan.send = spy

        try:
            if version == 3:
                arm_handshake()
                if phase == "auth":
                    armed["on"] = True
                    out["call"] = "authenticate"
                    # the two credentials in any mix of the accepted forms (bytes / hex text)
                    forms = case.get("forms", "bb")
                    t_arg = TOKEN.hex() if forms[0] == "h" else TOKEN
                    k_arg = KEY.hex() if forms[1] == "h" else KEY
                    await obj.authenticate(t_arg, k_arg)
                    out["result"] = None
                    return
                await lan.authenticate(TOKEN, KEY)
                if phase == "reauth":
                    await lan.send(FRAME)
                    await asyncio.sleep(12 * 3600 + 5)
            if phase == "idle":
                # the connection is established and idle; the peer pushes the hostile bytes unsolicited, then the user calls again
                await lan.send(FRAME)
                conn = dev.conns[-1]
                data = hostile.build(recipe, conn.session_keys[-1] if conn.session_keys else None)
                out["hostile"] = data
                conn.send_stream(data, delay=0.01, cuts=cuts)
                await asyncio.sleep(0.05)
                if case.get("silent"):
                    # ... and from then on the peer stays silent: the whole retry budget runs out
                    dev.on_data = lambda dev_, conn_, frame_: ("drop",)
            else:
                armed["on"] = True
            out["call"] = "send"
            for attempt in range(1 + case.get("again", 0)):
                # (with "again": the same call is repeated after the hostile exchange, the peer answering normally: what the hostile
                # packet left behind in the object must not break the contract of the following calls either)
                if attempt:
                    dev.on_data = None
                    armed["on"] = False
                    out.pop("exc", None)
                if attempt:
                    quiet["on"] = False
                    if attempt == 1 and case.get("lifetime_after"):
                        # configuration changed between two calls: a connection lifetime is set after the first contact
                        if api == "lan":
                            obj.max_connection_lifetime = case["lifetime_after"]
                        else:
                            obj.set_max_connection_lifetime(case["lifetime_after"])
                try:
                    async def call():
                        if api == "lan":
                            return await obj.send(FRAME)
                        if api == "device":
                            return await obj._send_command(GetStateCommand())
                        return await obj.refresh()
                    if attempt == 0 and case.get("cancel_at") is not None and case.get("again"):
                        # the caller gives up on the first call after `cancel_at` s (its own timeout); the calls that follow are not
                        # cancelled by anybody and must end within the contract
                        task = asyncio.ensure_future(call())
                        await asyncio.sleep(case["cancel_at"])
                        if not task.done():
                            task.cancel()
                        try:
                            out["result"] = await task
                        except asyncio.CancelledError:
                            out["result"] = []
                    else:
                        out["result"] = await call()
                except (ProtocolError, TimeoutError) as e:
                    out["exc"] = e
                    if api != "lan":
                        break
        except BaseException as e:
            out["exc"] = e
        finally:
            out["cb_exc"] = len(loop.callback_exceptions)
            try:
                lan._disconnect()
            except Exception:
                pass

    if case.get("debug"):
        from .. import harness
        with harness.debug_logging():
            vloop.run(main, net, tick=case.get("tick", 0.0))
    else:
        vloop.run(main, net, tick=case.get("tick", 0.0))
    exc = out.get("exc")
    call = out.get("call")
    if call is None:
        return ("setup", f"setup failed before the hostile exchange: {exc!r}")
    if api == "lan":
        if exc is None:
            r = out["result"]
            if call == "send" and not (isinstance(r, list) and all(isinstance(x, (bytes, bytearray)) for x in r)):
                return ("lan/bad-return", f"LAN.send returned {r!r}")
            return None
        if isinstance(exc, (ProtocolError, TimeoutError)):
            return None
        return (f"lan.{call}/escapes/{type(exc).__name__}", f"{type(exc).__name__} escaped LAN.{call}: {exc!r}; hostile={out.get('hostile', b'').hex()[:160]}")
    if api == "device":
        if call == "authenticate":
            if exc is None or isinstance(exc, AuthenticationError):
                return None
            return (f"device.authenticate/escapes/{type(exc).__name__}", f"{exc!r} escaped Device.authenticate; hostile={out.get('hostile', b'').hex()[:160]}")
        if exc is not None:
            return (f"device.send_command/escapes/{type(exc).__name__}", f"{exc!r} escaped Device._send_command; hostile={out.get('hostile', b'').hex()[:160]}")
        if not isinstance(out["result"], list):
            return ("device.send_command/bad-return", f"returned {out['result']!r}")
        return None
    # ac
    if exc is not None and out["frames_seen"] == 0:
        return (f"ac.refresh/escapes/{type(exc).__name__}", f"{exc!r} escaped refresh() although the transport produced no frame; hostile={out.get('hostile', b'').hex()[:160]}")
    return None


def replay(ctx, case):
    return check_case(case)


def _nontrivial(case) -> bool:
    try:
        data = hostile.build(case["hostile"], bytes(32))
    except Exception:
        return False
    r = case["hostile"]

    def signed(rr):
        if rr.get("t") == "v2":
            return rr.get("sign", "ok") == "ok"
        if rr.get("t") == "v3":
            return rr.get("tag", "ok") == "ok" or signed(rr.get("inner", {}))
        if rr.get("t") == "seq":
            return any(signed(x) for x in rr["items"])
        if rr.get("t") == "rep":
            return signed(rr["item"]) or signed(rr.get("tail") or {})
        return False
    if signed(r):
        return True
    if case["version"] == 3:
        return b"\x83\x70" in data and len(data) >= 8
    return data[:2] == b"\x5a\x5a" and len(data) >= 6


def _run_one(ctx, case):
    import json
    key = hash((json.dumps(case["hostile"], sort_keys=True), case["version"], case["phase"], case["api"], tuple(case.get("cuts", [])), case.get("delay"), case.get("tick"), case.get("debug"), case.get("then_close"), case.get("reset"), case.get("silent"), case.get("again"), case.get("after_hs"), case.get("multi"), case.get("silent_after"), case.get("cancel_at"), case.get("forms"), case.get("lifetime_after")))
    nt = _nontrivial(case)
    cls = f"v{case['version']}/{case['phase']}/{case['api']}"
    ctx.case(key, nt, cls=cls)
    ctx.label("tmpl=" + case["hostile"].get("t", "raw"))
    if case.get("burst"):
        ctx.label("burst of >= 1100 packets")
    ctx.sample(cls, case)
    return check_case(case)


def _catalogue():
    """Deterministic boundary catalogue (always run): the shapes most likely to sit behind a guard."""
    v2 = []
    for ctlen in (0, 1, 15, 16, 17, 32):
        v2.append({"t": "v2", "body": "ct", "ct": (bytes(range(ctlen))).hex(), "sign": "ok"})
    v2.append({"t": "v2", "body": "plain", "plain": (bytes(15) + b"\x11").hex(), "sign": "ok"})       # bad PKCS7
    v2.append({"t": "v2", "body": "plain", "plain": bytes(16).hex(), "sign": "ok"})                   # pad byte 0
    v2.append({"t": "v2", "body": "plain", "plain": "", "sign": "ok"})
    for lf in (0, 5, 6, 16, 39, 40, 41, 55, 56, 57, 0xFFFF):
        v2.append({"t": "v2", "body": "valid", "lenfield": lf, "sign": "ok"})
    for tr in (0, 1, 2, 5, 6, 7, 40, 56, 71):
        v2.append({"t": "v2", "body": "valid", "sign": "ok", "trunc": tr})
    v3 = []
    for pt in range(16):
        v3.append({"t": "v3", "ptype": pt, "inner": {"t": "v2"}, "enc": "ok", "tag": "ok"})
        v3.append({"t": "v3", "ptype": pt, "inner": {"t": "raw", "data": bytes(64).hex()}, "enc": "clear", "tag": "none"})
    for ctlen in (0, 1, 15, 16, 17, 31, 32, 33, 48):
        v3.append({"t": "v3", "ptype": 3, "inner": {"t": "raw", "data": ""}, "enc": "ct", "ct": bytes(range(ctlen)).hex(), "tag": "ok"})
        v3.append({"t": "v3", "ptype": 3, "inner": {"t": "raw", "data": ""}, "enc": "ct", "ct": bytes(range(ctlen)).hex(), "tag": "ok", "fixsize": True})
    for inner in v2:
        v3.append({"t": "v3", "ptype": 3, "inner": inner, "enc": "ok", "tag": "ok"})
    for pad in range(16):
        v3.append({"t": "v3", "ptype": 3, "inner": {"t": "v2"}, "enc": "ok", "tag": "ok", "pad": pad})
        v3.append({"t": "v3", "ptype": 3, "inner": {"t": "raw", "data": "5a5a"}, "enc": "ok", "tag": "ok", "pad": pad})
    for size in (0, 1, 5, 6, 31, 32, 39, 40, 55, 56, 0xFFFF):
        v3.append({"t": "v3", "ptype": 3, "inner": {"t": "v2"}, "enc": "ok", "tag": "ok", "size": size})
    for tr in (0, 1, 2, 5, 6, 7, 8, 9, 38, 39, 40):
        v3.append({"t": "v3", "ptype": 3, "inner": {"t": "v2"}, "enc": "ok", "tag": "ok", "trunc": tr, "fixsize": False})
        v3.append({"t": "v3", "ptype": 1, "inner": {"t": "raw", "data": bytes(64).hex()}, "enc": "clear", "trunc": tr})
    v3.append({"t": "v3", "ptype": 3, "inner": {"t": "v2"}, "enc": "wrongkey", "tag": "ok"})
    v3.append({"t": "v3", "ptype": 3, "inner": {"t": "v2"}, "enc": "ok", "tag": "bad"})
    v3.append({"t": "v3", "ptype": 3, "inner": {"t": "v2"}, "enc": "ok", "tag": "ok", "magic": 0x21})
    cases = []
    benign_ = {"t": "raw", "data": ""}
    for r in v2:
        for api in ("lan", "device", "ac"):
            cases.append({"version": 2, "phase": "send", "api": api, "hostile": r, "cuts": []})
    for r in v2:
        for api in ("lan", "device", "ac"):
            cases.append({"version": 2, "phase": "idle", "api": api, "hostile": r, "cuts": []})
    for r in v3 + v2:
        for phase in ("auth", "send", "reauth", "idle"):
            for api in ("lan", "device", "ac"):
                if api == "ac" and phase == "auth":
                    continue
                cases.append({"version": 3, "phase": phase, "api": api, "hostile": r, "cuts": []})
    # configuration: DEBUG logging effective (CLI --debug); every type nibble at every phase, some truncated shapes
    for pt in range(16):
        for phase in ("auth", "send"):
            for api in ("lan", "device"):
                cases.append({"version": 3, "phase": phase, "api": api, "debug": True, "cuts": [],
                              "hostile": {"t": "v3", "ptype": pt, "inner": {"t": "v2"}, "enc": "ok", "tag": "ok"}})
    for r in v2[:12]:
        cases.append({"version": 2, "phase": "send", "api": "device", "debug": True, "cuts": [], "hostile": r})
    # the peer sends bytes that never complete a packet (or nothing) and hangs up before the read timeout
    for version in (2, 3):
        for phase in (("send",) if version == 2 else ("auth", "send")):
            for data in ("", "83", "8370", "837000402001", "5a5a0111", "5a5a01116800"):
                for then_close in (0.0, 0.5, 1.9):
                    for reset in (False, True):
                        for api in ("lan", "device", "ac"):
                            if api == "ac" and phase == "auth":
                                continue
                            cases.append({"version": version, "phase": phase, "api": api, "cuts": [], "then_close": then_close, "reset": reset,
                                          "hostile": {"t": "raw", "data": data}})
    # timing edge: the hostile packet arrives within one loop iteration of the end of the 2 s read window (the loop
    # is run with a processing latency of 1 ms per iteration), for every type nibble
    for pt in range(16):
        for j in range(0, 14):
            d = round(2.0 - j * 0.00025, 6)
            for api in ("lan", "device"):
                r = {"t": "v3", "ptype": pt, "inner": {"t": "raw", "data": bytes(64).hex()}, "enc": "clear", "tag": "none"}
                cases.append({"version": 3, "phase": "send", "api": api, "hostile": r, "cuts": [], "delay": d, "tick": 0.001})
        for j in range(0, 14, 3):
            d = round(2.0 - j * 0.00025, 6)
            cases.append({"version": 3, "phase": "send", "api": "lan", "hostile": {"t": "v3", "ptype": pt, "inner": {"t": "v2"}, "enc": "ok", "tag": "ok"},
                          "cuts": [], "delay": d, "tick": 0.001})
        # the same during the handshake: a packet of every type arrives within one loop iteration of the end of the handshake's
        # read window (coarser loop latencies too)
        for tick in (0.001, 0.05, 0.2):
            for j in range(0, 14, 2):
                d = round(2.0 - j * tick / 4, 6)
                for api in ("lan", "device"):
                    r = {"t": "v3", "ptype": pt, "inner": {"t": "raw", "data": bytes(64).hex()}, "enc": "clear", "tag": "none"}
                    cases.append({"version": 3, "phase": "auth", "api": api, "hostile": r, "cuts": [], "delay": d, "tick": tick})
    # well-formed, correctly tagged responses whose header fields sit at their boundaries (counter 0xFFFF / 0x0FFF / 0, pad
    # nibble 0 / 15), followed by two more ordinary exchanges on the same object
    for cnt in (0, 1, 0x0FFF, 0x1000, 0x7FFF, 0x8000, 0xFFFE, 0xFFFF):
        for api in ("lan", "device", "ac"):
            for phase in ("send", "idle"):
                cases.append({"version": 3, "phase": phase, "api": api, "cuts": [], "again": 2,
                              "hostile": {"t": "v3", "ptype": 3, "cnt": cnt, "inner": {"t": "v2"}, "enc": "ok", "tag": "ok"}})
    for r in v3[:24] + v2[:8]:
        cases.append({"version": 3 if r["t"] == "v3" else 2, "phase": "send", "api": ["lan", "device", "ac"][len(cases) % 3], "cuts": [], "hostile": r, "again": 1})
    # hostile bytes arriving during the 1 s settle pause after a genuine handshake reply (explicit authenticate, or the
    # re-authentication inside a send after 12 h)
    for r in v3[:16] + [{"t": "raw", "data": rc.v3_error_packet().hex()}, {"t": "v3", "ptype": 15, "inner": {"t": "raw", "data": "4552524f52"}, "enc": "clear", "tag": "none"}]:
        for phase in ("auth", "reauth"):
            for after in (0.0, 0.2, 0.95):
                for api in ("lan", "device", "ac"):
                    if phase == "auth" and api == "ac":
                        continue
                    cases.append({"version": 3, "phase": phase, "api": api, "cuts": [], "hostile": r, "after_hs": after, "again": 1 if phase == "reauth" else 0})
    # signed V2 packets whose uninterpreted header fields (timestamp, message id, reserved bytes, id) hold arbitrary values
    for ts in ("000000001e021814", "00000000010118ff", "0000000001010000", "ffffffffffffffff", "6363633b171f0c63", "0000000000000000", "00000000001f0218"):
        for version in (2, 3):
            for api in ("lan", "device", "ac"):
                inner = {"t": "v2", "ts": ts, "mid": "ffffffff", "rsv": "ff" * 12, "id": 2 ** 64 - 1}
                r = inner if version == 2 else {"t": "v3", "ptype": 3, "inner": inner, "enc": "ok", "tag": "ok"}
                cases.append({"version": version, "phase": "send", "api": api, "cuts": [], "hostile": r, "again": 1})
                cases.append({"version": version, "phase": "idle", "api": api, "cuts": [], "hostile": r})
    # a well-formed unsolicited packet (or a hostile one) is queued on the idle connection, then the peer stays silent
    for version, recs in ((2, v2[:6] + [{"t": "v2"}]), (3, v3[:10] + [{"t": "v3", "ptype": 3, "inner": {"t": "v2"}, "enc": "ok", "tag": "ok"}])):
        for r in recs:
            for api in ("lan", "device", "ac"):
                cases.append({"version": version, "phase": "idle", "api": api, "cuts": [], "hostile": r, "silent": True})
    # bursts: a long run of identical small packets in one delivery (for every type nibble: header-only 8-byte packets,
    # and well-formed signed/tagged ones), optionally with a genuine response behind them
    genuine = {"t": "v3", "ptype": 3, "inner": {"t": "v2"}, "enc": "ok", "tag": "ok"}
    for pt in range(16):
        for n in (1100, 2600):
            for phase in ("send", "idle", "reauth"):
                for api in ("lan", "device", "ac"):
                    if (pt + n // 100 + len(phase) + len(api)) % 3 and pt != 1:
                        continue
                    item = {"t": "raw", "data": "83700000" + "20%02x" % pt + "%04x" % (pt * 257)}
                    cases.append({"version": 3, "phase": phase, "api": api, "cuts": [], "burst": True,
                                  "hostile": {"t": "rep", "n": n, "item": item, "tail": genuine if (pt + n) % 2 else None}})
        cases.append({"version": 3, "phase": "send", "api": "lan", "cuts": [], "burst": True,
                      "hostile": {"t": "rep", "n": 1100, "item": {"t": "v3", "ptype": pt, "inner": {"t": "raw", "data": bytes(64).hex()}, "enc": "clear", "tag": "ok"}, "tail": genuine}})
    for n in (1100, 2600):
        for api in ("lan", "device", "ac"):
            for phase in ("send", "idle"):
                cases.append({"version": 2, "phase": phase, "api": api, "cuts": [], "burst": True,
                              "hostile": {"t": "rep", "n": n, "item": {"t": "raw", "data": "5a5a01110600"}, "tail": {"t": "v2"}}})
                cases.append({"version": 2, "phase": phase, "api": api, "cuts": [], "burst": True,
                              "hostile": {"t": "rep", "n": n, "item": {"t": "v2", "sign": "bad"}, "tail": {"t": "v2"}}})
    # credentials in mixed forms x every handshake-reply shape; a connection lifetime configured between two calls
    for forms in ("bh", "hb", "hh"):
        for r in v3[:32:3] + [v3[-1], v3[-2], {"t": "v3", "ptype": 1, "inner": {"t": "raw", "data": bytes(64).hex()}, "enc": "clear", "tag": "none"},
                               {"t": "v3", "ptype": 1, "inner": {"t": "raw", "data": bytes(range(64)).hex()}, "enc": "clear", "tag": "none"}]:
            for api in ("lan", "device"):
                cases.append({"version": 3, "phase": "auth", "api": api, "hostile": r, "cuts": [], "forms": forms})
    for version in (2, 3):
        for api in ("lan", "device", "ac"):
            for phase in ("send", "idle"):
                for r in (benign_, (v2[0] if version == 2 else v3[0]), (v2[5] if version == 2 else v3[40])):
                    for life in (30, 0.5):
                        cases.append({"version": version, "phase": phase, "api": api, "hostile": r, "cuts": [], "again": 2, "lifetime_after": life})
    # a refresh that consists of several queries (energy polling on): one query gets the hostile answer, then the peer says nothing
    # more (or goes on normally)
    for version in (2, 3):
        for r in (v2[:4] + [v2[6], v2[-1]] if version == 2 else [v3[0], v3[7], v3[33], v3[40], v3[-3], v3[-2]]):
            for silent_after in (True, False):
                for again in (0, 1):
                    cases.append({"version": version, "phase": "send", "api": "ac", "cuts": [], "hostile": r, "multi": True, "silent_after": silent_after, "again": again})
    # the caller gives up on the first call (at each protocol phase: before the answer, in the settle pause after a handshake, while
    # waiting for a retransmission); the calls after it are nobody's to cancel
    benign = {"t": "raw", "data": ""}
    for version in (2, 3):
        for phase in (("send", "idle") if version == 2 else ("send", "reauth", "idle")):
            for cancel_at in (0.02, 0.5, 1.02, 1.2, 2.5):
                for api in ("lan", "device", "ac"):
                    for r in (benign, (v2[0] if version == 2 else v3[0])):
                        cases.append({"version": version, "phase": phase, "api": api, "cuts": [], "hostile": r, "cancel_at": cancel_at, "again": 2})
    return cases


def run(ctx) -> None:
    cat = _catalogue()
    for i, case in enumerate(cat):
        if ctx.mine(i):
            ctx.check(case, lambda c: _run_one(ctx, c))
    ctx.sweep("boundary catalogue x phases x api levels", len(cat), True)

    def cases(version):
        phases = ["send", "send", "idle"] if version == 2 else ["auth", "send", "send", "reauth", "idle"]
        return st.fixed_dictionaries({
            "version": st.just(version), "phase": st.sampled_from(phases), "api": st.sampled_from(["lan", "lan", "device", "ac"]),
            "hostile": hostile.recipes(version), "cuts": gens.cut_sets(200, 4)},
            optional={"delay": st.sampled_from([0.05, 1.0, 1.9985, 1.999, 1.9995, 2.0, 2.0005, 3.999, 5.9995]), "tick": st.sampled_from([0.0, 0.001]),
                      "debug": st.sampled_from([False, False, False, True]), "silent": st.booleans(), "again": st.sampled_from([0, 0, 1, 2]), "after_hs": st.sampled_from([0.0, 0.3, 0.99]), "then_close": st.sampled_from([0.0, 0.3, 1.9, 2.5]), "reset": st.booleans(),
                      "multi": st.booleans(), "silent_after": st.booleans(), "cancel_at": st.sampled_from([0.02, 0.5, 1.2, 2.5]),
                      "forms": st.sampled_from(["bb", "bh", "hb", "hh"]), "lifetime_after": st.sampled_from([30, 0.5, 600])}).map(
                lambda c: dict(c, api="lan") if (c["api"] == "ac" and c["phase"] == "auth") else c)

    ctx.hyp("v3", cases(3), lambda c: _run_one(ctx, c), ctx.n(6000, 400000))
    ctx.hyp("v2", cases(2), lambda c: _run_one(ctx, c), ctx.n(2400, 160000))

    # coverage-guided search (atheris/libFuzzer) over the same structured input space; an additional search,
    # the verdict never depends on it being available
    from .. import fuzzrun
    if not ctx.quick or ctx.shard < 2:
        fuzzrun.run_atheris(ctx, "c09", 15000 if ctx.quick else 300000, check_case)
