"""C07  V3 session discipline: no data before handshake, right key, bounded counter."""
from __future__ import annotations

import asyncio
import hashlib

from hypothesis import strategies as st

from .. import refcodec as rc
from .. import vloop
from ..devsim import SimDevice
from ..model_ac import ModelAC

ID = "C07"
LEVEL = "exploration"
SHARDS = {"quick": 8, "thorough": 16}
RULE = ("model-based histories against a model V3 device (configuration: max connection lifetime in {None, 30 s, 600 s, and fractional values 0.5 / 1.5 / 45.5 s}, which the application may set again to the same value at any point of the history; credentials, which begin with zero bytes, passed as bytes or as hex strings; the host's local time zone: UTC, or a zone whose daylight saving time ends or begins within the history); events "
        "from {send, send with the device silent, send answered by an error packet, send during which the peer closes, next "
        "connect refused, explicit authenticate with good credentials / bad token / bad key / while the device ignores handshakes / while the device refuses connections, a send whose handshake reply arrives damaged, sleep past 12 h, sleep past the "
        "connection lifetime, short sleep, two sends outstanding at once (the first answered after 0.3..1.9 s), cancel the running send/authenticate at a protocol phase}; up to 30 (quick) / 60 "
        "(thorough) events. A monitor parses every byte the device receives on every connection with the reference codec: (1) "
        "before the first genuinely answered handshake on a connection only handshake requests carrying the token configured "
        "for that call; (2) every type-6 packet decrypts with a valid tag under the latest session key of its own connection "
        "that the client could complete (older key only after a handshake the client had to reject: counted as stale-session), "
        "never under another connection's key, never undecodable; (3) counters start at 0, advance by one, wrap to 0 only from "
        "2^k-1 with one k in 8..16 per process; (4) no data packet more than 12 h after the last genuine handshake of its "
        "connection or (when configured) more than the lifetime after its connection was opened (slack: one exchange; the first transmission of a request that the library held back for more than 0.3 s without a handshake of its own must still find the session valid). Long "
        "sessions: >= 4200 (quick) / 66000 (thorough) exchanges on one connection (also followed by the 12 h re-authentication on that connection) and 70000 protocol-level writes. "
        "Non-trivial: the history contains a fault or expiry followed by a successful data exchange. Distinct by (config, events).")
ASSUMPTIONS = ["every history starts with an explicit authenticate call (successful or not): that call is what marks the device as V3 for the library",
               "lifetime is configuration (set before the first connect)", "'silent' means never answered; late answers are C08's domain",
               "expiry is one-directional: re-handshaking earlier than required is not a violation"]

# credentials with leading zero bytes / zero nibbles (text conversions must not lose them)
TOKEN = b"\x00\x0a" + hashlib.sha512(b"c07 token").digest()[2:]
KEY = b"\x00" + hashlib.sha256(b"c07 key").digest()[1:]
BAD_TOKEN = hashlib.sha512(b"c07 bad token").digest()
BAD_KEY = hashlib.sha256(b"c07 bad key").digest()
FRAME = bytes.fromhex("aa21ac8d000000000003418100ff03ff000200000000000000000000000003016971")
H12 = 12 * 3600
SLACK = 16.0
_BODY = rc.frame_parse(FRAME).body[:-1]


def frame_no(n: int) -> bytes:
    """The n-th request of a history: the same state query with a different tail, so that the device side can tell the first
    transmission of a request from a retransmission and from other requests."""
    return rc.frame_build(0x03, _BODY[:-2] + bytes([(n >> 8) & 0xFF, n & 0xFF]), hdr_fill=b"\x8d\x00\x00\x00\x00")


def monitor(dev, hs_notes: dict, lifetime, uncompletable: set, calls: dict = None):
    """Returns None or (bucket, detail).  hs_notes: log index -> token ok?  calls: request frame -> time the caller asked for it."""
    wrap_k = None
    per_conn: dict = {}
    stale = 0
    calls = calls or {}
    first_seen: set = set()
    for idx, e in enumerate(dev.log):
        st_ = per_conn.setdefault(e.conn, {"answered": False, "last_counter": None, "opened": None, "last_hs": None, "gens": 0})
        if e.kind == "connect":
            st_["opened"] = e.t
            continue
        if e.kind in ("client_close",):
            continue
        if e.kind == "hs_reply":
            st_["answered"] = True
            if (e.conn, st_["gens"]) not in uncompletable:
                st_["last_hs"] = e.t          # only a handshake the client could complete renews the 12 h lifetime
            st_["gens"] += 1
            continue
        # counters (handshake requests and data packets)
        if e.kind in ("hs_req", "data") and e.counter is not None:
            c = e.counter
            prev = st_["last_counter"]
            if prev is None:
                if c != 0:
                    return ("counter/start", f"first packet on connection {e.conn} has counter {c}")
            elif c == prev + 1:
                pass
            elif c == 0:
                k = (prev + 1).bit_length() - 1
                if (prev + 1) != (1 << k) or k > 16 or k < 8:
                    # (a counter that "wraps" after fewer than 256 packets - in the extreme one that never leaves 0 - is not a counter)
                    return ("counter/wrap", f"counter wrapped to 0 after {prev} (not 2^k-1 with 8 <= k <= 16)")
                if wrap_k is not None and wrap_k != k:
                    return ("counter/wrap-k", f"counter wraps at different widths 2^{wrap_k} and 2^{k}")
                wrap_k = k
            else:
                return ("counter/step", f"counter {c} after {prev} on connection {e.conn}")
            if c > 0xFFFF:
                return ("counter/width", f"counter {c} does not fit in two bytes")
            st_["last_counter"] = c
        if e.kind == "hs_req":
            st_.setdefault("hs_times", []).append(e.t)
            if not hs_notes.get(idx, True):
                return ("handshake/token", f"handshake request on connection {e.conn} carries a token other than the configured one")
            if lifetime is not None and e.t - st_["opened"] > lifetime + SLACK:
                # an exchange that starts after the lifetime elapsed starts on a new connection, also when it is an explicit authenticate
                return ("expiry/lifetime-handshake", f"handshake request {e.t - st_['opened']:.0f} s after its connection was opened (lifetime {lifetime})")
            continue
        if e.kind == "undecodable":
            if not st_["answered"]:
                return ("before-handshake/" + e.note.split()[0], f"connection {e.conn}: packet before any answered handshake: {e.note} raw={e.raw.hex()[:60]}")
            return ("undecodable/" + e.note.split()[0], f"connection {e.conn}: device cannot decode a packet: {e.note}")
        if e.kind == "data":
            if not st_["answered"]:
                return ("before-handshake/data", f"connection {e.conn}: data before a successful handshake")
            if e.key_gen != st_["gens"] - 1:
                # older key of the same connection: only acceptable when every newer handshake was one the client had to reject
                newer = range(e.key_gen + 1, st_["gens"])
                if all((e.conn, g) in uncompletable for g in newer):
                    stale += 1
                else:
                    return ("key/stale", f"connection {e.conn}: data under session key #{e.key_gen} although handshake #{st_['gens'] - 1} completed")
            if st_["last_hs"] is None:
                return ("before-handshake/data", f"connection {e.conn}: data although no handshake on it could be completed by the client")
            if e.frame in calls and e.frame not in first_seen:
                # first transmission of a request: the session must be valid when the data is *sent*, not merely when the call was made.
                # (a request that goes out at once, or after a handshake of its own on this connection, is covered by the rules below)
                first_seen.add(e.frame)
                t_call = calls[e.frame]
                waited = e.t - t_call
                own_hs = any(t_call - 1e-9 <= t <= e.t for t in st_.get("hs_times", []))
                if waited > 0.3 and not own_hs and st_["opened"] is not None and st_["opened"] < t_call:
                    if e.t - st_["last_hs"] > H12 + 0.01:
                        return ("expiry/stale-decision", f"a request asked for at t={t_call:.2f} was first sent {waited:.2f} s later, {e.t - st_['last_hs']:.2f} s after the last handshake of its connection (key lifetime 12 h), without a new handshake")
                    if lifetime is not None and e.t - st_["opened"] > lifetime + 0.01:
                        return ("expiry/stale-decision", f"a request asked for at t={t_call:.2f} was first sent {waited:.2f} s later on a connection {e.t - st_['opened']:.2f} s old (lifetime {lifetime}), without reconnecting")
            if e.t - st_["last_hs"] > H12 + SLACK:
                return ("expiry/12h", f"data packet {e.t - st_['last_hs']:.0f} s after the last handshake of its connection")
            if lifetime is not None and e.t - st_["opened"] > lifetime + SLACK:
                return ("expiry/lifetime", f"data packet {e.t - st_['opened']:.0f} s after its connection was opened (lifetime {lifetime})")
    return None


def check_history(case: dict):
    from msmart.device import AirConditioner as AC
    from msmart.lan import AuthenticationError, ProtocolError
    lifetime = case["config"].get("lifetime")
    events = case["events"]
    net = vloop.Net()
    out = {"ok_after_fault": False}

    async def main(loop):
        if case["config"].get("start"):
            loop.wall_skew = vloop.seconds_from_epoch(*case["config"]["start"])
        dev = SimDevice(loop, version=3, device_id=9, token=TOKEN, key=KEY, ac=ModelAC())
        net.listen("10.0.0.9", 6444, dev)
        mode = {"kind": None, "expect": TOKEN}
        hs_notes = {}
        uncompletable = set()

        def on_data(dev_, conn, frame):
            k = mode["kind"]
            if k == "silent":
                return ("drop",)
            if k == "slow":
                return ("answer", {"delay": mode.get("slow", 1.5)})
            if k == "error":
                return ("error",)
            if k == "close":
                return ("close",)
            return None

        dev.on_data = on_data
        orig_hs = dev._handshake

        def hs(conn, p):
            hs_notes[len(dev.log) - 1] = (bytes(p.payload) == mode["expect"])
            before = len(conn.session_keys)
            if mode.get("hs_silent"):
                return
            if mode.get("garble"):
                # the device's reply is damaged on the way (one bit): the client must reject it
                mode["garble"] = False
                saved = dev.default_hs_action
                dev.default_hs_action = ("genuine", {"mutate": lambda body: bytes([body[0] ^ 0x10]) + body[1:]})
                try:
                    orig_hs(conn, p)
                finally:
                    dev.default_hs_action = saved
                if len(conn.session_keys) > before:
                    uncompletable.add((conn.id, len(conn.session_keys) - 1))
                return
            orig_hs(conn, p)
            if mode.get("badkey") and len(conn.session_keys) > before:
                uncompletable.add((conn.id, len(conn.session_keys) - 1))
        dev._handshake = hs

        ac = AC(ip="10.0.0.9", port=6444, device_id=9)
        if lifetime is not None:
            ac.set_max_connection_lifetime(lifetime)
        lan = ac._lan
        faulted = False
        first = True
        calls = {}
        out["calls"] = calls

        def nf():
            f = frame_no(len(calls) + 1)
            calls[f] = loop.time()
            return f
        for ev in events:
            k = ev[0]
            mode.update(kind=None, expect=TOKEN, badkey=False, hs_silent=False, garble=False)
            try:
                first = False
                if k == "send":
                    r = await lan.send(nf())
                    if r and faulted:
                        out["ok_after_fault"] = True
                elif k == "send2":
                    # two coroutines use the object at once: a request whose answer takes a while, and `gap` s later a second one
                    mode["kind"], mode["slow"] = "slow", ev[2]
                    ta = asyncio.ensure_future(lan.send(nf()))
                    await asyncio.sleep(ev[1])
                    tb = asyncio.ensure_future(lan.send(nf()))
                    await asyncio.gather(ta, tb, return_exceptions=True)
                elif k in ("send_silent", "send_error", "send_close"):
                    mode["kind"] = k.split("_")[1]
                    faulted = True
                    await lan.send(nf())
                elif k == "refuse":
                    dev.connect_script.append("refuse")
                    lan._disconnect()
                    faulted = True
                    await lan.send(nf())
                elif k == "auth_good":
                    if case["config"].get("hex"):
                        await ac.authenticate(TOKEN.hex(), KEY.hex())      # as the CLI / cloud hand them over
                    else:
                        await ac.authenticate(TOKEN, KEY)
                elif k == "auth_bad_token":
                    mode["expect"] = BAD_TOKEN
                    faulted = True
                    await ac.authenticate(BAD_TOKEN, KEY)
                elif k == "auth_bad_key":
                    mode["badkey"] = True
                    faulted = True
                    await ac.authenticate(TOKEN, BAD_KEY)
                elif k == "auth_refused":
                    # the device is unreachable while the user authenticates (connect refused)
                    dev.connect_script.append("refuse")
                    for c in dev.conns:
                        c.close()
                    await asyncio.sleep(0.01)
                    faulted = True
                    await ac.authenticate(TOKEN, KEY)
                elif k == "auth_silent":
                    mode["hs_silent"] = True
                    faulted = True
                    await ac.authenticate(TOKEN, KEY)
                elif k == "send_garbled_hs":
                    # the next handshake reply (if this send needs one) arrives damaged
                    mode["garble"] = True
                    faulted = True
                    await lan.send(nf())
                elif k == "sleep_12h":
                    faulted = True
                    await asyncio.sleep(H12 + 60 + ev[1])
                elif k == "sleep_life":
                    faulted = True
                    await asyncio.sleep((lifetime or 30) + 20 + ev[1])
                elif k == "sleep":
                    await asyncio.sleep(ev[1])
                elif k == "reconfigure":
                    # the application sets the connection lifetime again, to the value it already has (e.g. on every start of
                    # its polling loop): nothing about the current connection's age changes
                    ac.set_max_connection_lifetime(lifetime)
                elif k == "cancel":
                    faulted = True
                    if ev[2] == "auth":
                        task = asyncio.ensure_future(ac.authenticate(TOKEN, KEY))
                    else:
                        task = asyncio.ensure_future(lan.send(nf()))
                    await asyncio.sleep(ev[1])
                    task.cancel()
                    try:
                        await task
                    except BaseException:
                        pass
            except (ProtocolError, TimeoutError):
                pass
            finally:
                dev.connect_script.clear()
        mode.update(kind=None, expect=TOKEN, badkey=False, hs_silent=False, garble=False)
        out["monitor"] = monitor(dev, hs_notes, lifetime, uncompletable, calls)
        out["n_data"] = sum(1 for e in dev.log if e.kind == "data")
        out["n_conn"] = len(dev.conns)
        out["n_hs"] = sum(1 for e in dev.log if e.kind == "hs_reply")
        try:
            lan._disconnect()
        except Exception:
            pass

    with vloop.host_timezone(case["config"].get("tz")):
        vloop.run(main, net)
    return out


def check_long(case: dict):
    """Very long sessions on one connection."""
    from msmart.device import AirConditioner as AC
    from msmart.lan import _LanProtocolV3
    if case["mode"] == "writes":
        # protocol level: 70000 writes through a fake transport, counters read back with the reference codec
        class _T:
            def __init__(self):
                self.out = []

            def get_extra_info(self, *_a):
                return ("10.0.0.1", 6444)

            def is_closing(self):
                return False

            def write(self, data):
                self.out.append(bytes(data))
        p = _LanProtocolV3()
        t = _T()
        p.connection_made(t)
        p._local_key = KEY
        prev = None
        wrap_k = None
        for i in range(case["n"]):
            try:
                r_ = p.write(b"\x00" * 14)
                if hasattr(r_, "send"):
                    # (should write() ever become a coroutine: drive it; an uncontended one finishes without suspending)
                    try:
                        r_.send(None)
                        return ("long/write-suspends", f"write #{i} did not complete although the transport accepts data")
                    except StopIteration:
                        pass
            except Exception as e:
                return (f"long/raises/{type(e).__name__}", f"write #{i} raised {e!r}")
            d = rc.v3_decode(t.out[-1], KEY)
            t.out.clear()
            c = d.counter
            if prev is None:
                if c != 0:
                    return ("counter/start", f"first counter {c}")
            elif c == prev + 1:
                pass
            elif c == 0 and (prev + 1) & prev == 0 and prev >= 255:
                k = (prev + 1).bit_length() - 1
                if wrap_k not in (None, k) or k > 16:
                    return ("counter/wrap-k", f"wrap after {prev}")
                wrap_k = k
            else:
                return ("counter/step", f"counter {c} after {prev} at write {i}")
            prev = c
        return None
    net = vloop.Net()
    out = {}

    async def main(loop):
        dev = SimDevice(loop, version=3, device_id=9, token=TOKEN, key=KEY, ac=ModelAC(), latency=0.01)
        net.listen("10.0.0.9", 6444, dev)
        ac = AC(ip="10.0.0.9", port=6444, device_id=9)
        await ac.authenticate(TOKEN, KEY)
        lan = ac._lan
        for i in range(case["n"]):
            try:
                r = await lan.send(FRAME)
            except Exception as e:
                out["v"] = (f"long/raises/{type(e).__name__}", f"exchange #{i} failed: {e!r}")
                return
            if not r:
                out["v"] = ("long/empty", f"exchange #{i} returned nothing")
                return
        if case.get("then_reauth"):
            # ... and the session goes on past the 12 h key lifetime: the re-authentication happens on the same connection, its
            # handshake request takes the next counter value like any other packet
            await asyncio.sleep(H12 + 60)
            for i in range(3):
                if not await lan.send(FRAME):
                    out["v"] = ("long/empty", f"exchange #{i} after the re-authentication returned nothing")
                    return
        out["v"] = monitor(dev, {}, None, set())
        out["conns"] = len(dev.conns)
        lan._disconnect()

    vloop.run(main, net)
    if out["v"]:
        return out["v"]
    if out["conns"] != 1:
        return ("long/reconnected", f"{out['conns']} connections in an uninterrupted session")
    return None


def check_case(case: dict):
    if case.get("long"):
        return check_long(case)
    return check_history(case)["monitor"]


def replay(ctx, case):
    return check_case(case)


def _run_one(ctx, case):
    import json
    if case.get("long"):
        ctx.case(hash(json.dumps(case, sort_keys=True)), True, cls="long/" + case["mode"])
        ctx.sample("long", case)
        return check_long(case)
    out = check_history(case)
    ctx.case(hash(json.dumps(case, sort_keys=True)), out["ok_after_fault"], cls=f"lifetime={case['config'].get('lifetime')}")
    ctx.label("data packets observed", out["n_data"])
    ctx.label("connections observed", out["n_conn"])
    ctx.label("handshakes observed", out["n_hs"])
    ctx.sample(f"lifetime={case['config'].get('lifetime')}" + ("/nt" if out["ok_after_fault"] else ""), case)
    return out["monitor"]


def events(max_len: int):
    # cancellation points by protocol phase (device latency 0.05 s, post-handshake pause 1 s), plus jitter
    phases = [0.02, 0.5, 1.07, 2.5, 3.6]
    ev = st.one_of(
        st.just(["send"]), st.just(["send"]), st.just(["send"]), st.just(["send_silent"]), st.just(["send_error"]), st.just(["send_close"]),
        st.just(["refuse"]), st.just(["auth_good"]), st.just(["auth_bad_token"]), st.just(["auth_bad_key"]), st.just(["auth_silent"]), st.just(["auth_refused"]), st.just(["send_garbled_hs"]),
        st.integers(0, 100).map(lambda x: ["sleep_12h", x]), st.integers(0, 100).map(lambda x: ["sleep_life", x]),
        st.sampled_from([0.01, 0.5, 3.0, 20.0, 29.0, 31.0, 400.0, 599.0, 3600.0, 25200.0, 43000.0, 43900.0]).map(lambda x: ["sleep", x]), st.just(["reconfigure"]), st.tuples(st.sampled_from([0.05, 0.2, 0.6]), st.sampled_from([0.3, 1.5, 1.9])).map(lambda t: ["send2", t[0], t[1]]),
        st.tuples(st.sampled_from(phases), st.sampled_from([0.0, 0.01, -0.01]), st.sampled_from(["send", "send", "auth"])).map(lambda t: ["cancel", round(t[0] + t[1], 3), t[2]]),
    )
    body = st.lists(ev, min_size=1, max_size=max_len)
    # most histories start with a successful explicit authentication (the object needs credentials once); the rest start cold
    # every history starts with an explicit authentication attempt: that call is what tells the library the device is V3
    first = st.sampled_from([["auth_good"], ["auth_good"], ["auth_good"], ["auth_good"], ["auth_silent"], ["auth_refused"], ["auth_bad_token"], ["auth_bad_key"],
                             ["cancel", 0.02, "auth"], ["cancel", 0.5, "auth"]])
    return st.tuples(first, body).map(lambda t: [t[0]] + t[1])


def run(ctx) -> None:
    # long sessions
    longs = [{"long": True, "mode": "writes", "n": 70000}, {"long": True, "mode": "exchanges", "n": 4200 if ctx.quick else 66000},
             {"long": True, "mode": "exchanges", "n": 4200 if ctx.quick else 66000, "then_reauth": True}]
    for i, case in enumerate(longs):
        if ctx.mine(i):
            ctx.check(case, lambda c: _run_one(ctx, c))
    # scripted histories that hit each expiry rule directly
    scripts = []
    for lifetime in (None, 30, 600, 0.5, 1.5):
        for prefix in (["send"], ["send", "send_silent"], ["send", "auth_bad_key", "send"], ["send", "send_error"], ["send", "send_close"]):
            for tail in (["sleep_12h", 0], ["sleep_life", 0], ["sleep", 29.0], ["sleep", 31.0]):
                scripts.append({"config": {"lifetime": lifetime, "hex": len(scripts) % 2 == 0}, "events": [["auth_good"]] + [[p] for p in prefix] + [tail, ["send"], ["send"]]})
                scripts.append({"config": {"lifetime": lifetime}, "events": [["auth_good"]] + [[p] for p in prefix] + [tail, ["auth_bad_key"], ["send"], ["send"]]})
                scripts.append({"config": {"lifetime": lifetime}, "events": [["auth_good"]] + [[p] for p in prefix] + [tail, ["send_garbled_hs"], ["send"]]})
        scripts.append({"config": {"lifetime": lifetime}, "events": [["auth_good"], ["send"], ["reconfigure"], ["sleep_life", 0], ["send"], ["send"]]})
        # traffic inside the 12 h window does not extend it: 7 h + 7 h after the handshake the next exchange re-authenticates
        scripts.append({"config": {"lifetime": lifetime}, "events": [["auth_good"], ["send"], ["sleep", 25200.0], ["send"], ["sleep", 25200.0], ["send"], ["send"]]})
        scripts.append({"config": {"lifetime": lifetime}, "events": [["auth_good"], ["sleep", 43000.0], ["send"], ["sleep", 300.0], ["send"], ["sleep", 43000.0], ["send"]]})
        # an explicit re-authentication on the live connection does not restart that connection's lifetime ...
        L_ = lifetime or 30
        scripts.append({"config": {"lifetime": lifetime}, "events": [["auth_good"], ["send"], ["sleep", 0.7 * L_], ["auth_good"], ["sleep", 0.7 * L_], ["send"], ["send"]]})
        scripts.append({"config": {"lifetime": lifetime}, "events": [["auth_good"], ["sleep", 0.6 * L_], ["auth_bad_key"], ["auth_good"], ["sleep", 0.6 * L_], ["send"]]})
        # ... and the 12 h limit is a hard one: 12 h + 1 min, + 20 min, + 35 min after the handshake the next exchange re-authenticates
        for extra in (60.0, 1200.0, 2100.0):
            scripts.append({"config": {"lifetime": lifetime}, "events": [["auth_good"], ["send"], ["sleep", 43200.0 + extra - 20.0], ["send"], ["send"]]})
            # ... whatever the host's time zone does in between (end of daylight saving time during the night: local time repeats an hour)
            for tz, start in (("CET-1CEST,M3.5.0,M10.5.0/3", [2024, 10, 26, 20, 0]), ("EST5EDT,M3.2.0,M11.1.0", [2024, 11, 3, 2, 0]),
                              ("CET-1CEST,M3.5.0,M10.5.0/3", [2024, 3, 30, 20, 0]), ("AEST-10AEDT,M10.1.0,M4.1.0/3", [2024, 4, 6, 9, 0])):
                scripts.append({"config": {"lifetime": lifetime, "tz": tz, "start": start}, "events": [["auth_good"], ["send"], ["sleep", 43200.0 + extra - 20.0], ["send"], ["send"]]})
        # two requests outstanding at once while the connection lifetime / the 12 h key lifetime runs out between them
        age0 = 1.15       # (authenticate + settle pause + one exchange)
        limit = lifetime if lifetime else 43200.0
        for gap, slow in ((0.2, 1.5), (0.5, 1.9), (0.1, 0.9)):
            scripts.append({"config": {"lifetime": lifetime}, "events": [["auth_good"], ["send"], ["sleep", limit - age0 - slow + 0.45], ["send2", gap, slow], ["send"], ["send"]]})
        # the first exchange after an expiry is an explicit authenticate
        scripts.append({"config": {"lifetime": lifetime}, "events": [["auth_good"], ["send"], ["sleep_life", 0], ["auth_good"], ["send"]]})
        scripts.append({"config": {"lifetime": lifetime}, "events": [["auth_good"], ["send"], ["sleep_12h", 0], ["auth_good"], ["send"]]})
        scripts.append({"config": {"lifetime": lifetime}, "events": [["auth_good"], ["sleep_life", 5], ["auth_bad_key"], ["send"]]})
        scripts.append({"config": {"lifetime": lifetime}, "events": [["auth_good"], ["send"], ["sleep", 10.0], ["reconfigure"], ["sleep", (lifetime or 30) - 5.0], ["send"], ["reconfigure"], ["send"]]})
        for first_ev in (["auth_silent"], ["auth_refused"], ["cancel", 0.02, "auth"], ["cancel", 0.5, "auth"], ["auth_bad_token"], ["auth_bad_key"]):
            scripts.append({"config": {"lifetime": lifetime}, "events": [first_ev, ["send"], ["auth_good"], ["send"]]})
    for i, case in enumerate(scripts):
        if ctx.mine(i + 2):
            ctx.check(case, lambda c: _run_one(ctx, c))
    ctx.sweep("long sessions + scripted expiry histories", len(longs) + len(scripts), True)
    zones = st.sampled_from([{}, {}, {"tz": "CET-1CEST,M3.5.0,M10.5.0/3", "start": [2024, 10, 26, 20, 0]}, {"tz": "EST5EDT,M3.2.0,M11.1.0", "start": [2024, 11, 3, 2, 0]},
                             {"tz": "CET-1CEST,M3.5.0,M10.5.0/3", "start": [2024, 3, 30, 20, 0]}, {"tz": "NZST-12NZDT,M9.5.0,M4.1.0/3", "start": [2024, 4, 6, 6, 0]}])
    cases = st.fixed_dictionaries({"config": st.tuples(st.fixed_dictionaries({"lifetime": st.sampled_from([None, 30, 600, 600, 0.5, 1.5, 45.5]), "hex": st.booleans()}), zones).map(lambda t: dict(t[0], **t[1])),
                                   "events": events(30 if ctx.quick else 60)})
    ctx.hyp("histories", cases, lambda c: _run_one(ctx, c), ctx.n(3200, 200000))
