"""C13  Corrupted responses are rejected and never change state."""
from __future__ import annotations

import random

from hypothesis import strategies as st

from .. import respkinds as RK
from .. import refcodec as rc
from .. import vloop
from ..devsim import SimDevice

ID = "C13"
LEVEL = "fault_enumeration"
SHARDS = {"quick": 8, "thorough": 16}
RULE = ("(overlap level: an apply() answered correctly and, 0.05..0.25 s later, a refresh() of the same client whose answers all arrive corrupted are outstanding at once; the client must end as in the run where the poll is not answered at all, offline and unsupported) one valid response of each kind (state with CRC-8, state with additive check, capabilities, properties 0xB1 and 0xB0, "
        "energy, humidity) produced by the model in state S1; faults: every position p>=1 x every substitute value without "
        "fix-up, and every body position except the check byte x every value with the outer checksum recomputed. Decoder level "
        "(exhaustive in both tiers): Response.construct must raise InvalidFrameException/InvalidResponseException iff the "
        "independent predicate valid(f) = checksum ok and (id in {B0,B1} or CRC-8 ok or additive ok) is false. Full stack "
        "(8 values per position quick, all 255 thorough; a quarter of the cases with the host raising warnings attributed to the library's modules as errors, python -W error): client with capabilities and state from a good device in S0; device "
        "switched to S1 (every field, property, capability different) and answering every request of the next refresh() / "
        "get_capabilities() with the corrupted frame; if not valid(f): to_dict(), breeze/ieco and all capability attributes "
        "unchanged, online False, supported False, no exception. Additionally body corruptions with fix-up for valid frames of ten different frame types (incl. pushed reports 0x04 and notifications 0x05), and the header bytes (length byte, appliance type, protocol, frame type) are swept over all substitutes for 24 (quick) / 400 (thorough) different valid frames per kind. Selective corruption (metamorphic, full stack): with the device moved from S0 to S1, over 1..7 refreshes the answers of a subset of kinds {state, energy, humidity, properties} arrive corrupted (1..3 adjacent corrupted copies per batch) and the others intact; the client must end in the same state as one whose device answered those kinds intact with the old values. Non-trivial: not valid(f) and the corruption is not in the last "
        "two bytes; every selective case. Distinct by (kind, position, value, fix-up, level).")
ASSUMPTIONS = ["corruptions that satisfy the other body check, or turn the id into 0xB0/0xB1, are valid frames by the property's own "
               "definition; counted as accepted_by_design and not asserted"]


def corrupt(kind: str, pos: int, val: int, fix: bool, base: str = None) -> bytes:
    f = bytearray(bytes.fromhex(base) if base else RK.valid_frame(kind, 1))
    pos = pos % len(f)
    if f[pos] == val:
        val ^= 0x80
    f[pos] = val
    if fix:
        f[-1] = rc.checksum(bytes(f[1:-1]))
    return bytes(f)


def check_decoder(case: dict):
    from msmart.device.AC.command import InvalidResponseException, Response
    from msmart.frame import InvalidFrameException
    f = corrupt(case["kind"], case["pos"], case["val"], case["fix"], case.get("base"))
    valid = RK.is_valid(f)
    try:
        Response.construct(f)
    except (InvalidFrameException, InvalidResponseException):
        # rejecting is always allowed: a frame that is valid by the checksum rule may still be unparseable (C14's domain)
        return None
    except Exception as e:
        if valid:
            return None      # parse failures of accepted-by-design frames are C14's domain
        return (f"decoder/raises/{type(e).__name__}", f"invalid frame not rejected cleanly: {e!r} frame={f.hex()}")
    if not valid:
        return ("decoder/accepted", f"{case['kind']} corrupted at {case['pos']} -> {case['val']:#x} (fix-up={case['fix']}) was used: {f.hex()}")
    return None


def check_stack(case: dict):
    from msmart.device import AirConditioner as AC
    f = corrupt(case["kind"], case["pos"], case["val"], case["fix"], case.get("base"))
    valid = RK.is_valid(f)
    net = vloop.Net()
    res = {}

    async def main(loop):
        m = RK.model(0)
        dev = SimDevice(loop, version=2, device_id=3, ac=m)
        net.listen("10.0.0.9", 6444, dev)
        ac = AC(ip="10.0.0.9", port=6444, device_id=3)
        if case.get("extra_at_caps"):
            # the capability exchange also delivers an unsolicited (valid) state report of the old state next to its answer
            m.response_hook = lambda fr, p, outp: ([m.state_frame(0x03)] + outp + [m.state_frame(0x04)]) if p.body[0] == 0xB5 else outp
        await ac.get_capabilities()
        m.response_hook = None
        await ac.refresh()
        res["ready"] = ac.online and ac.supported
        res["before"] = RK.snapshot(ac)
        if case.get("extra_at_caps") == 2:
            # ... and once more right before the corrupted exchange (nothing of the good device's traffic may make up for the
            # corrupted answers of the next refresh)
            m.response_hook = lambda fr, p, outp: ([m.state_frame(0x03)] + outp) if p.body[0] == 0xB5 else outp
            await ac.get_capabilities()
            res["before"] = RK.snapshot(ac)
        # someone used the remote: everything differs; every request is answered with the corrupted frame
        m1 = RK.model(1)
        m.state, m.cap_pages, m.props, m.energy, m.indoor_humidity = m1.state, m1.cap_pages, m1.props, m1.energy, m1.indoor_humidity
        m.response_hook = lambda fr, p, outp: [f]
        try:
            if case["kind"] == "caps":
                await ac.get_capabilities()
            else:
                await ac.refresh()
        except Exception as e:
            res["exc"] = e
        res["after"] = RK.snapshot(ac)
        res["online"], res["supported"] = ac.online, ac.supported
        ac._lan._disconnect()

    from .. import harness
    with harness.strict_warnings(bool(case.get("strict"))):       # optionally the host raises the library's warnings as errors (python -W error)
        vloop.run(main, net)
    if not res["ready"]:
        return ("stack/setup", "client did not come online against the good device")
    if valid:
        return None
    if "exc" in res:
        return (f"stack/raises/{type(res['exc']).__name__}", f"{res['exc']!r} on corrupted {case['kind']} frame {f.hex()}")
    if res["after"] != res["before"]:
        diff = {k: (res["before"][k], res["after"][k]) for k in res["before"] if res["before"][k] != res["after"][k]}
        return ("stack/state-changed", f"corrupted {case['kind']} frame (pos {case['pos']}, fix-up {case['fix']}) changed state: {diff}")
    if res["supported"]:
        return ("stack/supported", "device still reported supported after only corrupted frames")
    if case["kind"] != "caps" and res["online"]:
        return ("stack/online", "refresh that received only corrupted frames reports the device online")
    return None


MIX_KINDS = ["state", "energy", "humidity", "props"]


def _req_kind(p) -> str:
    b = p.body
    if b[0] == 0xB1:
        return "props"
    if b[0] == 0x41 and b[1] == 0x81:
        return "state"
    if b[0] == 0x41 and b[1] == 0x21 and (b[3] & 0x0F) == 4:
        return "energy"
    if b[0] == 0x41 and b[1] == 0x21 and (b[3] & 0x0F) == 5:
        return "humidity"
    return "other"


def _corrupt_frame(f: bytes, pos: int, val: int, fix: bool) -> bytes:
    g = bytearray(f)
    pos = 1 + pos % (len(g) - 1)
    if g[pos] == val:
        val ^= 0x80
    g[pos] = val
    if fix:
        g[-1] = rc.checksum(bytes(g[1:-1]))
    return bytes(g)


def check_mix(case: dict):
    """Selective corruption over several refreshes (metamorphic): the device moved from S0 to S1; over `rounds` refreshes
    the answers of the kinds in `bad` arrive corrupted (each corrupted frame `copies` times, adjacent, in one batch) and
    the others intact.  The client must end in the same state as a client whose device answered the kinds in `bad`
    with the old values (S0) intact, i.e. corrupted answers carry no information."""
    from msmart.device import AirConditioner as AC
    bad = set(case["bad"])
    snaps = []
    used = {"corrupted": 0}
    for reference in (False, True):
        net = vloop.Net()
        res = {}

        async def main(loop, reference=reference):
            m = RK.model(0)
            old = RK.model(0)
            dev = SimDevice(loop, version=2, device_id=3, ac=m)
            net.listen("10.0.0.9", 6444, dev)
            ac = AC(ip="10.0.0.9", port=6444, device_id=3)
            await ac.get_capabilities()
            if case.get("energy_explicit"):
                ac.enable_energy_usage_requests = True
            await ac.refresh()
            res["ready"] = ac.online and ac.supported
            m1 = RK.model(1)
            m.state, m.props, m.energy, m.indoor_humidity = m1.state, m1.props, m1.energy, m1.indoor_humidity
            n = {"i": 0}

            def hook(fr, p, outp):
                k = _req_kind(p)
                if k not in bad:
                    return outp
                if reference:
                    return old.handle(fr)
                out = []
                for f in outp:
                    n["i"] += 1
                    cs = [_corrupt_frame(f, case["pos"] + 7 * j + n["i"], (case["val"] + 31 * j) & 0xFF, case["fix"]) for j in range(case.get("copies", 1))]
                    if any(RK.is_valid(c) for c in cs):
                        cs = [_corrupt_frame(f, len(f) - 1, f[-1] ^ 0x5A, False)] * len(cs)      # always invalid: outer checksum broken
                    used["corrupted"] += len(cs)
                    out.extend(cs)
                return out

            m.response_hook = hook
            try:
                for _ in range(case.get("rounds", 4)):
                    await ac.refresh()
            except Exception as e:
                res["exc"] = e
            res["after"] = RK.snapshot(ac)
            res["online"] = ac.online
            ac._lan._disconnect()

        from .. import harness
        with harness.strict_warnings(bool(case.get("strict"))):
            vloop.run(main, net)
        snaps.append(res)
    got, ref = snaps
    if not got["ready"] or not ref["ready"]:
        return ("mix/setup", "client did not come online against the good device")
    if "exc" in ref:
        return ("mix/reference-raises", f"{ref['exc']!r} with intact frames only")
    if "exc" in got:
        return (f"mix/raises/{type(got['exc']).__name__}", f"{got['exc']!r} with corrupted {sorted(bad)} answers")
    if got["after"] != ref["after"]:
        diff = {k: (ref["after"][k], got["after"][k]) for k in ref["after"] if ref["after"][k] != got["after"][k]}
        return ("mix/state-changed", f"corrupted {sorted(bad)} answers (x{case.get('copies', 1)}, {case.get('rounds', 4)} refreshes) changed state (expected, got): {diff}")
    if bad >= set(MIX_KINDS) and got["online"]:
        return ("mix/online", "refreshes that received only corrupted frames report the device online")
    return None


def check_overlap(case: dict):
    """Two requests of one client are outstanding at the same time: the user applies (answered correctly after 0.3 s) and 0.1 s later a
    poll starts, all of whose answers arrive corrupted (reference run: are not answered at all).  Corrupted answers carry no
    information: the client ends in the same state in both runs, and the poll leaves it offline and unsupported."""
    import asyncio
    from msmart.device import AirConditioner as AC
    snaps = []
    for reference in (False, True):
        net = vloop.Net()
        res = {}

        async def main(loop, reference=reference):
            m = RK.model(0)
            dev = SimDevice(loop, version=2, device_id=3, ac=m)
            net.listen("10.0.0.9", 6444, dev)
            ac = AC(ip="10.0.0.9", port=6444, device_id=3)
            await ac.get_capabilities()
            if case.get("energy_explicit"):
                ac.enable_energy_usage_requests = True
            await ac.refresh()
            res["ready"] = ac.online and ac.supported
            dev.latency = 0.3
            n = {"i": 0}

            def hook(fr, p, outp):
                if p.body[0] == 0x40:
                    return outp                      # the state command is answered correctly
                if reference:
                    return []                        # the poll's queries go unanswered
                out = []
                for f in outp:
                    n["i"] += 1
                    c = _corrupt_frame(f, case["pos"] + n["i"], case["val"], case["fix"])
                    if RK.is_valid(c):
                        c = _corrupt_frame(f, len(f) - 1, f[-1] ^ 0x5A, False)
                    out.extend([c] * case.get("copies", 1))
                return out
            m.response_hook = hook
            ac.target_temperature = 30.0
            ac.fan_speed = AC.FanSpeed.LOW
            ac.power_state = True
            t_apply = asyncio.ensure_future(ac.apply())
            await asyncio.sleep(case.get("gap", 0.1))
            t_poll = asyncio.ensure_future(ac.refresh())
            try:
                await t_apply
                await t_poll
            except Exception as e:
                res["exc"] = e
            res["after"] = RK.snapshot(ac)
            res["online"], res["supported"] = ac.online, ac.supported
            ac._lan._disconnect()

        from .. import harness
        with harness.strict_warnings(bool(case.get("strict"))):
            vloop.run(main, net)
        snaps.append(res)
    got, ref = snaps
    if not got["ready"] or not ref["ready"]:
        return ("overlap/setup", "client did not come online against the good device")
    if "exc" in ref:
        return ("overlap/reference-raises", f"{ref['exc']!r} with unanswered poll queries")
    if "exc" in got:
        return (f"overlap/raises/{type(got['exc']).__name__}", f"{got['exc']!r} with an apply and a corrupted poll outstanding at once")
    if got["after"] != ref["after"]:
        diff = {k: (ref["after"][k], got["after"][k]) for k in ref["after"] if ref["after"][k] != got["after"][k]}
        return ("overlap/state-changed", f"corrupted poll answers overlapping an apply changed state (unanswered poll, corrupted poll): {diff}")
    if got["online"] or got["supported"]:
        return ("overlap/online", f"a refresh that received only corrupted frames (while an apply was answered correctly) reports online={got['online']} supported={got['supported']}")
    return None


def check_case(case: dict):
    if case.get("level") == "overlap":
        return check_overlap(case)
    if case.get("level") == "mix":
        return check_mix(case)
    return check_stack(case) if case.get("level") == "stack" else check_decoder(case)


def replay(ctx, case):
    return check_case(case)


def _run_mix(ctx, case):
    import json
    if case.get("level") == "overlap":
        ctx.case(hash(json.dumps(case, sort_keys=True)), True, cls="overlap")
        ctx.sample("overlap", case)
        return check_overlap(case)
    ctx.case(hash(json.dumps(case, sort_keys=True)), True, cls="mix/" + "+".join(case["bad"]))
    if case.get("copies", 1) > 1:
        ctx.label("adjacent corrupted frames in one batch")
    ctx.sample("mix", case)
    return check_mix(case)


def _run_one(ctx, case):
    if case.get("level") == "mix":
        return _run_mix(ctx, case)
    f = corrupt(case["kind"], case["pos"], case["val"], case["fix"], case.get("base"))
    valid = RK.is_valid(f)
    n = len(f)
    nt = (not valid) and (case["pos"] % n) < n - 2
    ctx.case(hash((case["kind"], case["pos"] % n, case["val"], case["fix"], case.get("level", "decoder"), case.get("base"), case.get("extra_at_caps"))), nt,
             cls=f"{case.get('level', 'decoder')}/{case['kind']}/{'fixup' if case['fix'] else 'plain'}")
    if valid:
        ctx.label("accepted_by_design")
    ctx.sample(f"{case.get('level', 'decoder')}/{case['kind']}", case)
    return check_case(case)


def run(ctx) -> None:
    rnd = random.Random(ctx.seed + 5)
    n = 0
    s = 0
    for kind in RK.KINDS:
        f = RK.valid_frame(kind, 1)
        L = len(f)
        for fix in (False, True):
            positions = range(1, L) if not fix else range(10, L - 2)
            for pos in positions:
                # decoder level: all 255 substitutes
                for val in range(256):
                    if val == f[pos]:
                        continue
                    n += 1
                    if ctx.mine(n):
                        case = {"kind": kind, "pos": pos, "val": val, "fix": fix}
                        ctx.check(case, lambda c: _run_one(ctx, c))
                # full stack: 8 values per position (quick) / all (thorough)
                vals = [v for v in range(256) if v != f[pos]]
                if ctx.quick:
                    vals = [f[pos] ^ 0xFF, f[pos] ^ 0x01, f[pos] ^ 0x80, (f[pos] + 1) & 0xFF, 0x00 if f[pos] else 0x55, 0xB1 if f[pos] != 0xB1 else 0xB0,
                            rnd.choice(vals), rnd.choice(vals)]
                    if kind in ("props_b1", "energy") and pos % 3:
                        vals = vals[:3]
                for val in vals:
                    s += 1
                    if ctx.mine(s):
                        case = {"kind": kind, "pos": pos, "val": val, "fix": fix, "level": "stack"}
                        if s % 5 == 0:
                            case["extra_at_caps"] = 1 + (s // 5) % 2
                        if s % 4 == 1:
                            case["strict"] = True
                        ctx.check(case, lambda c: _run_one(ctx, c))
    ctx.sweep("decoder level: all positions x all 255 substitutes x fix-up", n, True)
    # header bytes (length byte in particular) over many different valid frames of each kind: whether a corrupted
    # header can ever make a frame pass depends on the frame's content
    import hashlib
    from .. import model_ac as M
    h = 0
    nvar = 24 if ctx.quick else 400
    for v in range(nvar):
        d = hashlib.sha256(b"c13 variant %d" % v).digest()
        props = {0x0009: bytes([d[0] % 101]), 0x000A: bytes([d[1] % 101]), 0x0048: bytes([d[2] % 101]), 0x0043: bytes([1 + d[3] % 4]),
                 0x0039: bytes([d[4] & 1]), 0x0042: bytes([1 + d[5] % 2]), 0x0018: bytes([d[6] & 1])}
        ids = sorted(props)[: 3 + d[7] % 5]
        recs = [M.prop_resp_record(pid, props[pid]) for pid in ids]
        frames = {
            "props_b1": rc.frame_build(M.FT_QUERY, bytes([0xB1, len(recs)]) + b"".join(recs), proto=3),
            "props_b0": rc.frame_build(M.FT_CONTROL, bytes([0xB0, len(recs[:3])]) + b"".join(recs[:3]), proto=3),
            "state": rc.frame_build(M.FT_QUERY, bytes([0xC0]) + d[:23], proto=3),
            "humidity": rc.frame_build(M.FT_QUERY, b"\xc1\x21\x01\x45" + d[8:24], proto=3),
        }
        for kind, fr in frames.items():
            for pos in (1, 2, 8, 9):
                for val in range(256):
                    if val == fr[pos]:
                        continue
                    h += 1
                    if ctx.mine(h):
                        case = {"kind": kind, "pos": pos, "val": val, "fix": False, "base": fr.hex()}
                        ctx.check(case, lambda c: _run_one(ctx, c))
                        if pos == 1 and not RK.is_valid(corrupt(kind, pos, val, False, fr.hex())) and (val + h) % 97 == 0:
                            c2 = dict(case, level="stack")
                            ctx.check(c2, lambda c: _run_one(ctx, c))
    ctx.sweep("header bytes (length, appliance, protocol, frame type) x all substitutes over many frames of each kind", h, True)
    # valid frames of every frame type (queries 0x03, control 0x02, pushed reports 0x04, notifications 0x05, others): body
    # corruption with the outer checksum recomputed, decoder level and full stack
    ft = 0
    bodies = {"state": RK.valid_frame("state", 1)[10:-2], "energy": RK.valid_frame("energy", 1)[10:-2], "humidity": RK.valid_frame("humidity", 1)[10:-2],
              "caps": RK.valid_frame("caps", 1)[10:-2]}
    for ftype in (0x00, 0x01, 0x02, 0x03, 0x04, 0x05, 0x06, 0x0A, 0x63, 0xFF):
        for kind, body in bodies.items():
            fr = rc.frame_build(ftype, body, proto=3)
            for pos in range(11, len(fr) - 2, 1 if not ctx.quick else 2):
                for val in ((fr[pos] ^ 0xFF, fr[pos] ^ 0x01) if ctx.quick else (fr[pos] ^ 0xFF, fr[pos] ^ 0x01, fr[pos] ^ 0x80, (fr[pos] + 7) & 0xFF)):
                    ft += 1
                    if ctx.mine(ft):
                        case = {"kind": kind, "pos": pos, "val": val, "fix": True, "base": fr.hex()}
                        ctx.check(case, lambda c: _run_one(ctx, c))
                        if (pos + ftype) % 5 == 0:
                            ctx.check(dict(case, level="stack"), lambda c: _run_one(ctx, c))
    ctx.sweep("body corruption with fix-up x frame types x response kinds", ft, True)
    ctx.sweep("full stack: positions x substitutes", s, not ctx.quick)
    # selective corruption over several refreshes: every non-empty subset of answer kinds x copies x fix-up x rounds
    import itertools
    x = 0
    for r in range(1, 5):
        for bad in itertools.combinations(MIX_KINDS, r):
            for copies in (1, 2, 3):
                for fix in (False, True):
                    for rounds in (1, 4, 6):
                        for pos in ((11, 17) if ctx.quick else range(10, 34)):
                            x += 1
                            if ctx.mine(x):
                                case = {"level": "mix", "bad": list(bad), "copies": copies, "fix": fix, "rounds": rounds, "pos": pos, "val": (pos * 37 + x) & 0xFF,
                                        "energy_explicit": x % 2 == 0, "strict": x % 3 == 0}
                                ctx.check(case, lambda c: _run_mix(ctx, c))
    ctx.sweep("selective corruption: subsets of answer kinds x copies x fix-up x rounds x positions", x, True)
    # an apply (answered correctly) and a poll (answered with corrupted frames only) outstanding at the same time
    ov = 0
    for pos in (10, 11, 13, 17, 21, 30):
        for fix in (False, True):
            for copies in (1, 2):
                for gap in (0.05, 0.1, 0.25):
                    ov += 1
                    if ctx.mine(ov):
                        case = {"level": "overlap", "pos": pos, "val": (pos * 41 + ov) & 0xFF, "fix": fix, "copies": copies, "gap": gap, "energy_explicit": ov % 2 == 0}
                        ctx.check(case, lambda c: _run_mix(ctx, c))
    ctx.sweep("apply answered correctly while a poll gets only corrupted answers: positions x fix-up x copies x gap", ov, True)
    mix = st.fixed_dictionaries({"level": st.just("mix"), "bad": st.lists(st.sampled_from(MIX_KINDS), min_size=1, max_size=4, unique=True).map(sorted),
                                 "copies": st.integers(1, 3), "fix": st.booleans(), "rounds": st.integers(1, 7), "pos": st.integers(0, 60), "val": st.integers(0, 255),
                                 "energy_explicit": st.booleans(), "strict": st.booleans()})
    ctx.hyp("mix", mix, lambda c: _run_mix(ctx, c), ctx.n(300, 40000))
