"""C05  V3 encrypted packet codec: interoperable for every length, tamper-evident."""
from __future__ import annotations

import hashlib

from hypothesis import strategies as st

from .. import gens, vloop
from .. import refcodec as rc
from ..devsim import SimDevice
from ..model_ac import ModelAC

ID = "C05"
LEVEL = "exploration"
SHARDS = {"quick": 8, "thorough": 16}
RULE = ("(also: sessions of 600 / 6000 requests with scattered payload lengths encoded by one long-lived protocol object, each decoded by the reference) req: _LanProtocolV3._encode_encrypted_request(counter, payload) under a session key decoded by the independent V3 "
        "decoder (type 6, counter, payload, pad == (16-(len+2)%16)%16, size == len+pad+32, total == size+8, valid SHA-256 tag); "
        "resp: packets from the independent encoder decoded by _process_packet, directly or as they arrive on a connection (through the stream framer's data_received, whole or cut in two, then taken from the receive queue); tamper: every single-bit flip of one response "
        "per residue must make LAN._read semantics (_process_packet then _Packet.decode) raise ProtocolError; wiretamper: the same on a live connection, a response with one bit altered (outside marker and size field) followed by silence must make LAN.send raise ProtocolError, not time out; wire: LAN.send on an "
        "authenticated connection with arbitrary frame lengths (optionally with the request leaving just before the 12 h key lifetime ends and the response arriving just after); half of the codec cases reuse one long-lived protocol object per key instead of a fresh one. Exhaustive payload lengths 0..300 (all 16 residues) and counters "
        "0..4095; keys random. Non-trivial: (len+2)%16==0 or len in {0,1} or counter in {0,255,256,4095} or a tamper case. "
        "Distinct by (kind, len/payload hash, key, counter, flip).")
ASSUMPTIONS = ["AES block primitive and SHA-256 shared with the code under test (trusted base)",
               "tamper evidence asserted where the library consumes responses (_process_packet followed by _Packet.decode), see DESIGN 5"]


def _key(i: int) -> bytes:
    return hashlib.sha256(b"c05 key %d" % i).digest()


def _payload(n: int, salt: int) -> bytes:
    out = bytearray()
    c = 0
    while len(out) < n:
        out += hashlib.sha256(b"p%d/%d/%d" % (n, salt, c)).digest()
        c += 1
    return bytes(out[:n])


_SHARED: dict = {}


def _proto(key: bytes, shared: bool = False):
    """A protocol object holding ``key``; ``shared`` reuses one long-lived object per key (a connection that has
    already encoded other requests), otherwise a fresh one."""
    from msmart.lan import _LanProtocolV3
    if shared and key in _SHARED:
        return _SHARED[key]
    p = _LanProtocolV3()
    p._local_key = key
    if shared:
        if len(_SHARED) > 64:
            _SHARED.clear()
        _SHARED[key] = p
    return p


def check_case(case: dict):
    from msmart.lan import ProtocolError, _Packet
    kind = case["kind"]
    key = bytes.fromhex(case["key"])
    if kind == "req":
        payload = bytes.fromhex(case["payload"])
        cnt = case["counter"]
        try:
            pkt = (case["proto"] if "proto" in case else _proto(key, case.get("shared", False)))._encode_encrypted_request(cnt, payload)
        except Exception as e:
            return (f"req/raises/{type(e).__name__}", f"_encode_encrypted_request raised {e!r}")
        try:
            d = rc.v3_decode(bytes(pkt), key)
        except rc.RefError as e:
            return (f"req/ref-rejects/{str(e).split()[0]}", f"reference decoder rejects request: {e}; len={len(payload)} packet={bytes(pkt).hex()[:120]}")
        L = len(payload)
        want_pad = (16 - (L + 2) % 16) % 16
        if d.ptype != rc.T_ENC_REQ:
            return ("req/type", f"type nibble {d.ptype}")
        if not d.tag_valid:
            return ("req/tag", f"SHA-256 tag over header+plaintext invalid (len {L})")
        if d.counter != cnt:
            return ("req/counter", f"counter {d.counter} != {cnt}")
        if d.pad != want_pad:
            return ("req/pad", f"pad nibble {d.pad} != {want_pad} for len {L}")
        if d.size_field != L + want_pad + 32:
            return ("req/size", f"size field {d.size_field} != {L + want_pad + 32}")
        if d.payload != payload:
            return ("req/payload", f"decoded payload differs (len {len(d.payload)} vs {L})")
        return None
    if kind == "reqseq":
        # one long-lived protocol object (a connection) encodes `n` requests whose lengths follow a scattered sequence; every
        # one of them must decode (anything the object carries over from request to request is part of the input)
        from msmart.lan import _LanProtocolV3
        proto = _LanProtocolV3()
        proto._local_key = key
        x = case["start"]
        for i in range(case["n"]):
            x = (x * 1103515245 + 12345) & 0x7FFFFFFF
            L = (x >> 8) % (case["maxlen"] + 1)
            sub = check_case({"kind": "req", "key": case["key"], "payload": _payload(L, i).hex(), "counter": i & 0xFFF, "proto": proto})
            if sub is not None:
                return (sub[0], f"request #{i + 1} of the session (payload length {L}): {sub[1]}")
        return None
    if kind == "resp":
        payload = bytes.fromhex(case["payload"])
        cnt = case["counter"]
        padb = bytes.fromhex(case["padbytes"]) if "padbytes" in case else None
        pad = rc.v3_pad_for(len(payload))
        if padb is not None:
            padb = (padb + bytes(16))[:pad]
        pkt = rc.v3_encode_response(key, cnt, payload, padbytes=padb)
        try:
            if case.get("via") == "stream":
                # as on a connection: the bytes arrive through the stream framer (whole, or in two segments) and the
                # packet is taken from the receive queue
                class _T:
                    def get_extra_info(self, *_a):
                        return ("10.0.0.1", 6444)

                    def is_closing(self):
                        return False
                proto = _proto(key, False)
                proto.connection_made(_T())
                cut = case.get("cut", 0) % (len(pkt) + 1)
                for seg in ((pkt[:cut], pkt[cut:]) if 0 < cut < len(pkt) else (pkt,)):
                    proto.data_received(seg)
                if proto._queue.qsize() != 1:
                    return ("resp/not-delivered", f"response with payload len {len(payload)} ({len(pkt)} bytes on the wire, cut at {cut}) was not delivered by the stream framer "
                            f"({proto._queue.qsize()} packets queued)")
                with memoryview(proto._queue.get_nowait()) as mv:
                    got = proto._process_packet(mv)
            else:
                with memoryview(pkt) as mv:
                    got = _proto(key, case.get("shared", False))._process_packet(mv)
        except Exception as e:
            return (f"resp/raises/{type(e).__name__}", f"_process_packet raised {e!r} for payload len {len(payload)} pad {pad}")
        if got != payload:
            return ("resp/payload", f"decoded {len(got)} bytes != sent {len(payload)} bytes (pad {pad}): {bytes(got).hex()[:80]}")
        return None
    if kind == "tamper":
        frame = bytes.fromhex(case["frame"])
        v2 = rc.v2_encode(case.get("id", 1), frame)
        payload = v2 if case.get("inner", "v2") == "v2" else frame
        pkt = bytearray(rc.v3_encode_response(key, case["counter"], payload))
        bit = case["bit"] % (len(pkt) * 8)
        pkt[bit // 8] ^= 1 << (bit % 8)
        try:
            with memoryview(bytes(pkt)) as mv:
                got = _proto(key)._process_packet(mv)
            out = _Packet.decode(got)
        except ProtocolError:
            return None
        except Exception as e:
            return (f"tamper/raises/{type(e).__name__}", f"bit {bit}: rejected with {e!r}, not a protocol error")
        return ("tamper/accepted", f"bit {bit} (byte {bit // 8}) flipped but decode returned {bytes(out).hex()[:60]}")
    if kind == "wire":
        frame = bytes.fromhex(case["frame"])
        token = hashlib.sha512(key).digest()
        net = vloop.Net()
        out = {}

        async def main(loop):
            from msmart.lan import LAN
            dev = SimDevice(loop, version=3, device_id=case["id"], token=token, key=key, ac=ModelAC())
            replies = [bytes.fromhex(x) for x in case["replies"]]
            # optionally the unit hangs up right behind its answer (FIN / RST, seen by the client's loop after or in the same pass as the answer)
            dev.default_action = ("frames", replies, {"cuts": case.get("cuts", []), "then": case.get("hangup")})
            net.listen("10.0.0.9", 6444, dev)
            lan = LAN("10.0.0.9", 6444, case["id"])
            try:
                await lan.authenticate(token, key)
                if case.get("edge"):
                    # the request leaves 20 ms before the 12 h key lifetime ends, the (prompt) response arrives after it
                    import asyncio
                    await asyncio.sleep(12 * 3600 - 1.0 - 0.02)
                for _ in range(case.get("warm", 0)):
                    lan._protocol._packet_id = (lan._protocol._packet_id + 1) & 0xFFF
                out["frames"] = await lan.send(frame, retries=1)
            except Exception as e:
                out["exc"] = e
            out["tx"] = list(dev.transmissions)
            out["log"] = [(e.kind, e.note, e.counter) for e in dev.log]
            lan._disconnect()
            return replies

        replies, _ = vloop.run(main, net)
        if "exc" in out:
            return (f"wire/raises/{type(out['exc']).__name__}", f"{out['exc']!r}; device log {out['log']}")
        if len(out["tx"]) != 1 or out["tx"][0][2] != frame:
            return ("wire/request", f"device decoded {[(t[2].hex()) for t in out['tx']]} expected {frame.hex()}; log {out['log']}")
        got = [bytes(f) for f in out["frames"]]
        # how many replies one send returns depends on segmentation (C04); here: a non-empty prefix, byte-identical
        if not got or got != replies[:len(got)]:
            return ("wire/replies", f"send returned {[f.hex() for f in got]} not a non-empty prefix of {case['replies']}")
        return None
    if kind == "wiretamper":
        # an authenticated connection: the answer to the first transmission arrives with one bit altered (anywhere
        # except the start marker and the size field, which belong to the stream framer), then the unit stays silent.
        # LAN.send (default retry budget) must end in a ProtocolError - not in a timeout, not in returned frames.
        from msmart.lan import LAN
        frame = bytes.fromhex(case["frame"])
        token = hashlib.sha512(key).digest()
        net = vloop.Net()
        out = {}

        async def main(loop):
            dev = SimDevice(loop, version=3, device_id=7, token=token, key=key, ac=ModelAC())
            seen = {"n": 0}

            def on_data(dev_, conn, fr):
                seen["n"] += 1
                if seen["n"] > 1:
                    return ("drop",)
                pkt = bytearray(dev_.wrap(conn, frame))
                bit = 32 + case["bit"] % ((len(pkt) - 4) * 8)         # skip bytes 0..3
                pkt[bit // 8] ^= 1 << (bit % 8)
                out["where"] = (bit // 8, bit % 8, len(pkt))
                conn.send_stream(bytes(pkt), delay=dev_.latency)
                return ("drop",)
            dev.on_data = on_data
            net.listen("10.0.0.9", 6444, dev)
            lan = LAN("10.0.0.9", 6444, 7)
            await lan.authenticate(token, key)
            try:
                out["frames"] = await lan.send(b"\xaa" + bytes(20))
            except ProtocolError as e:
                out["perr"] = e
            except BaseException as e:
                out["exc"] = e
            lan._disconnect()

        vloop.run(main, net)
        if "perr" in out:
            return None
        if "exc" in out:
            return (f"wiretamper/{type(out['exc']).__name__}", f"bit {out.get('where')} of the response altered: LAN.send ended in {out['exc']!r}, not in a protocol error")
        return ("wiretamper/accepted", f"bit {out.get('where')} of the response altered but LAN.send returned {[bytes(f).hex()[:40] for f in out['frames']]}")
    raise ValueError(kind)


def replay(ctx, case):
    return check_case(case)


def _nt(case) -> bool:
    if case["kind"] in ("tamper", "wiretamper"):
        return True
    if case["kind"] in ("wire", "reqseq"):
        return True
    L = len(case["payload"]) // 2
    return (L + 2) % 16 == 0 or L in (0, 1) or case["counter"] in (0, 255, 256, 4095)


def _run_one(ctx, case):
    kind = case["kind"]
    if kind in ("req", "resp"):
        L = len(case["payload"]) // 2
        ctx.label(f"residue={(L + 2) % 16}")
        key = hash((kind, case["payload"], case["key"], case["counter"], case.get("via"), case.get("cut")))
    elif kind == "tamper":
        key = hash((kind, case["frame"], case["key"], case["counter"], case["bit"]))
    elif kind == "wiretamper":
        key = hash((kind, case["frame"], case["key"], case["bit"]))
    elif kind == "reqseq":
        key = hash((kind, case["key"], case["start"], case["n"], case["maxlen"]))
    else:
        key = hash((kind, case["frame"], case["key"], tuple(case["replies"]), tuple(case.get("cuts", []))))
    nt = _nt(case)
    ctx.case(key, nt, cls=kind)
    ctx.sample(kind + ("/nt" if nt else ""), case)
    return check_case(case)


def run(ctx) -> None:
    nkeys = 2 if ctx.quick else 12
    n = 0
    # every payload length 0..300 (all residues incl. pad 0), both directions; odd keys reuse one long-lived protocol
    # object per key (all lengths in ascending order on the same "connection": the key index selects the shard)
    for L in range(301):
        for k in range(nkeys):
            n += 1
            if k % ctx.nshards != ctx.shard:
                continue
            for kind in ("req", "resp"):
                case = {"kind": kind, "key": _key(k).hex(), "payload": _payload(L, k).hex(), "counter": (L * 37 + k * 1001) & 0xFFF,
                        "shared": k % 2 == 1}
                ctx.check(case, lambda c: _run_one(ctx, c))
            # the same response as it arrives on a connection: through the stream framer, whole and cut in two
            for cut in (0, 1 + (L * 7 + k) % (L + 40)):
                case = {"kind": "resp", "key": _key(k).hex(), "payload": _payload(L, k).hex(), "counter": (L * 37 + k * 1001) & 0xFFF, "via": "stream", "cut": cut}
                ctx.check(case, lambda c: _run_one(ctx, c))
    ctx.sweep("payload length 0..300 x keys x {req,resp,resp through the stream framer}", n * 4, True)
    # sessions: one protocol object, 600 (quick) / 6000 (thorough) requests with scattered lengths
    for sidx in range(4 if ctx.quick else 16):
        if ctx.mine(sidx):
            case = {"kind": "reqseq", "key": _key(20 + sidx).hex(), "start": 12345 + 7919 * sidx, "n": 600 if ctx.quick else 6000, "maxlen": [300, 40, 120, 15][sidx % 4]}
            ctx.check(case, lambda c: _run_one(ctx, c))
    ctx.sweep("request sessions on one protocol object with scattered payload lengths", 4 if ctx.quick else 16, True)
    # payloads that merely look like a V2 packet (marker, a length field that disagrees with the real length, two packets
    # back to back): the V3 layer must deliver the payload as sent, whatever it contains
    z = 0
    for total in (6, 8, 56, 57, 104, 113, 208, 300):
        for declared in (0, 1, 6, 40, 56, 104, total - 1, total, total + 1, 0xFFFF):
            for head in (b"\x5a\x5a\x01\x11", b"\x5a\x5a\x00\x00", b"\x83\x70\x00\x20"):
                z += 1
                if not ctx.mine(z):
                    continue
                body = head + bytes([declared & 0xFF, (declared >> 8) & 0xFF]) + _payload(max(0, total - 6), z)
                for kind in ("req", "resp"):
                    case = {"kind": kind, "key": _key(3).hex(), "payload": body[:total].hex(), "counter": z & 0xFFF, "shared": z % 2 == 0}
                    ctx.check(case, lambda c: _run_one(ctx, c))
    two = rc.v2_encode(1, _payload(20, 1)) + rc.v2_encode(2, _payload(33, 2))
    for kind in ("req", "resp"):
        if ctx.mine(z + 1):
            case = {"kind": kind, "key": _key(4).hex(), "payload": two.hex(), "counter": 9}
            ctx.check(case, lambda c: _run_one(ctx, c))
    ctx.sweep("packet-like payloads with inconsistent length fields", z * 2 + 2, True)
    # every counter 0..4095 for a few lengths
    m = 0
    for L in ((14, 30, 0) if ctx.quick else (14, 30, 0, 1, 104, 120, 200)):
        for cnt in range(4096):
            m += 1
            if not ctx.mine(m):
                continue
            for kind in ("req", "resp"):
                case = {"kind": kind, "key": _key(5).hex(), "payload": _payload(L, 99).hex(), "counter": cnt}
                ctx.check(case, lambda c: _run_one(ctx, c))
    ctx.sweep("counter 0..4095 x lengths x {req,resp}", m * 2, True)
    # tamper: every single-bit flip of one response per residue (V2-in-V3 payloads have residue 10 only, so raw payloads too)
    t = 0
    residues = range(16)
    for r in residues:
        frame_len = r + (16 if ctx.quick else 48)
        for inner in ("raw", "v2"):
            if inner == "v2" and r not in (0, 5, 11):
                continue
            frame = _payload(frame_len if inner == "raw" else r + 3, r)
            base = rc.v3_encode_response(_key(r), 7, rc.v2_encode(1, frame) if inner == "v2" else
                                         frame)
            # choose a raw payload length with residue r: (len+2)%16 == r
            if inner == "raw":
                L = 16 * 2 + ((r - 2) % 16)
                frame = _payload(L, r)
                base = rc.v3_encode_response(_key(r), 7, frame)
            for bit in range(len(base) * 8):
                t += 1
                if not ctx.mine(t):
                    continue
                case = {"kind": "tamper", "key": _key(r).hex(), "frame": frame.hex(), "counter": 7, "bit": bit, "inner": inner}
                ctx.check(case, lambda c: _run_one(ctx, c))
    ctx.sweep("single-bit flips of one response per residue", t, True)
    # the same through LAN.send on a live connection: every bit of header bytes 4..7 and a spread of ciphertext / tag bits
    w = 0
    fr = _payload(21, 5)
    total = 8 + len(rc.v2_encode(7, fr)) + rc.v3_pad_for(len(rc.v2_encode(7, fr))) + 32
    for bit in list(range(0, 32)) + list(range(32, (total - 4) * 8, 7 if ctx.quick else 1)):
        w += 1
        if ctx.mine(w):
            case = {"kind": "wiretamper", "key": _key(6).hex(), "frame": fr.hex(), "bit": bit}
            ctx.check(case, lambda c: _run_one(ctx, c))
    ctx.sweep("single-bit flips of a response on a live connection (LAN.send)", w, not ctx.quick)
    # a response on a live connection whose sender hangs up right behind it: every padding residue x how the hang-up is seen
    h = 0
    for L in range(0, 36):
        for hangup in ("fin", "rst", "fin_same", "rst_same"):
            h += 1
            if ctx.mine(h):
                case = {"kind": "wire", "key": _key(7).hex(), "id": 7 + L, "frame": _payload(L + 11, 3).hex(), "replies": [_payload(L, 4).hex()] + ([_payload(L + 5, 6).hex()] if L % 3 == 0 else []),
                        "cuts": [] if L % 2 else [9 + L], "hangup": hangup}
                ctx.check(case, lambda c: _run_one(ctx, c))
    ctx.sweep("response followed by the sender's hang-up x payload length 0..35 x {FIN,RST} x {after, same pass}", h, True)

    hexb = lambda s: s.map(lambda b: b.hex())
    codec_cases = st.fixed_dictionaries({
        "kind": st.sampled_from(["req", "resp"]), "key": hexb(gens.keys32()),
        "payload": hexb(st.one_of(st.integers(0, 300).flatmap(lambda n: st.binary(min_size=n, max_size=n)),
                                  st.integers(0, 20).map(lambda k: bytes(16 * k + 14)), gens.frames_bytes(300))),
        "counter": st.one_of(st.integers(0, 4095), st.sampled_from([0, 255, 256, 4095, 4096, 65535])),
        "padbytes": hexb(st.binary(min_size=16, max_size=16)), "shared": st.booleans()},
        optional={"via": st.sampled_from(["direct", "stream", "stream"]), "cut": st.integers(0, 400)})
    wire_cases = st.fixed_dictionaries({
        "kind": st.just("wire"), "key": hexb(gens.keys32()), "id": gens.device_ids(64),
        "frame": hexb(gens.frames_bytes(255)), "replies": st.lists(hexb(gens.frames_bytes(100)), min_size=1, max_size=3),
        "cuts": gens.cut_sets(300, 5), "warm": st.sampled_from([0, 0, 254, 4094]), "edge": st.sampled_from([False, False, True])},
        optional={"hangup": st.sampled_from(["fin", "rst", "fin_same", "rst_same"])})
    tamper_cases = st.fixed_dictionaries({
        "kind": st.just("tamper"), "key": hexb(gens.keys32()), "frame": hexb(gens.frames_bytes(80)),
        "counter": st.integers(0, 4095), "bit": st.integers(0, 8 * 250), "inner": st.sampled_from(["v2", "raw"])})

    def runner(case):
        return _run_one(ctx, case)

    ctx.hyp("codec", codec_cases, runner, ctx.n(1500, 400000))
    ctx.hyp("tamper", tamper_cases, runner, ctx.n(1000, 200000))
    ctx.hyp("wire", wire_cases, runner, ctx.n(1200, 64000))
