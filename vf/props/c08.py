"""C08  Retry, timeout and recovery contract of an exchange."""
from __future__ import annotations

import asyncio
import hashlib
import itertools

from hypothesis import strategies as st

from .. import refcodec as rc
from .. import vloop
from ..devsim import SimDevice
from ..model_ac import ModelAC

ID = "C08"
LEVEL = "fault_enumeration"
SHARDS = {"quick": 8, "thorough": 16}
RULE = ("part D: get_capabilities() against a unit that serves two pages, the request for page 0 or page 1 hit by {drop, error packet, garbage, close, reset}: the call returns without raising and the next refresh() succeeds. Part A (exhaustive): retry budget r in 1..4 (quick: 1..3); each transmission i<r is either never answered or answered "
        "after a delay from {0.05,1.0,1.95,2.05,3.0,3.95,4.05,6.5} s; V2 and V3; oracle = reference model of the retry loop "
        "(transmissions at 0,2,4,.. while nothing has arrived; return at the earliest arrival T*<2r with floor(T*/2)+1 "
        "byte-identical transmissions, else TimeoutError at 2r after exactly r) compared on transmission count, virtual return "
        "time and outcome; with r=3 also Device._send_command()==[] and refresh() -> online False on timeout; a quarter of the patterns run with a configured connection lifetime that expires mid-exchange; a quarter with a jump of the host's wall clock (suspend/resume, clock step: -3 s .. +1 h) during the exchange, which the reference model ignores; on V3 a quarter of the patterns with unanswered transmissions have the device emit marker-free bytes instead of staying silent (no response by C04's skipping rule; the reference model is unchanged). an error packet as answer to transmission k ends the exchange with a protocol error after exactly k transmissions, at LAN and device level. Part B "
        "(exhaustive): every single fault and ordered pair from {drop, drop incl. handshake, error packet, error packet also in reply to the re-authentication handshake, garbage, peer close, peer reset (mid-exchange or while idle), graceful close by the peer while idle (FIN: the transport asks the protocol's eof_received() as asyncio does), an answer followed by the peer's FIN, an explicit re-authentication that the caller abandons or that times out while the handshake reply is on its way, the unit coming back under a new address while configured by host name, "
        "connect refused, connect hangs, cancel at each protocol phase} x {V2,V3} x {fresh object, established connection}, "
        "followed by a clean exchange immediately or after a pause, with or without a configured connection lifetime (1..60 s), at LAN level or through AirConditioner.refresh() (single-query, or several queries per refresh with energy polling enabled; on V3 the user's single authenticate() call may have been abandoned during the 1 s settle pause after the handshake): faulty exchange ends within contract (frames / "
        "ProtocolError / TimeoutError / cancellation) and the clean exchange returns the device's reply (fresh handshake on V3 "
        "when needed) and refresh() reports online. Part C (Hypothesis): longer random fault sequences, optionally against a unit that hangs up after every answer (FIN/RST, seen after or in the same loop pass as the answer). Non-trivial: >=1 "
        "retransmission, or a fault followed by a successful exchange. Distinct by pattern.")
ASSUMPTIONS = ["delays avoid exact ties with the 2 s retransmission grid",
               "handshake replies are prompt or never (late handshake replies depend on undocumented device nonce policy, DESIGN 7)"]

TOKEN = hashlib.sha512(b"c08 token").digest()
KEY = hashlib.sha256(b"c08 key").digest()
FRAME = bytes.fromhex("aa21ac8d000000000003418100ff03ff000200000000000000000000000003016971")
DELAYS = [0.05, 1.0, 1.95, 2.05, 3.0, 3.95, 4.05, 6.5]
FAULTS = ["drop", "drop_hs", "error", "error_hs", "garbage", "close", "reset", "idle_reset", "idle_fin", "answer_fin", "lease", "reauth_cancel", "reauth_timeout", "refuse", "hang", "cancel:connect",
          "cancel:hs_wait", "cancel:hs_pause", "cancel:data_wait", "cancel:retransmit"]


# ----------------------------------------------------------------------------- part A
def reference_retry(r: int, pattern: list):
    """pattern[i] = delay of the answer to transmission i, or None.  Returns (outcome, time, transmissions)."""
    arrivals = []
    sent = 0
    for i in range(r):
        t_send = 2.0 * i
        if any(a < t_send for a in arrivals):
            break
        sent += 1
        if pattern[i] == "E":
            # the unit answers this transmission with an error packet (only generated after unanswered transmissions): the
            # exchange ends there with a protocol error, nothing is transmitted again
            return ("protocol", t_send + 0.05, sent)
        if pattern[i] is not None:
            # answers travel on one TCP stream: a later answer cannot overtake an earlier one
            arrivals.append(max(t_send + pattern[i], arrivals[-1] if arrivals else 0.0))
    ok = [a for a in arrivals if a < 2.0 * r]
    if ok:
        t = min(ok)
        return ("frames", t, int(t // 2) + 1)
    return ("timeout", 2.0 * r, r)


def check_retry(case: dict):
    from msmart.device import AirConditioner as AC
    from msmart.lan import LAN
    version = case["version"]
    r = case["r"]
    pattern = case["pattern"]
    level = case.get("level", "lan")
    net = vloop.Net()
    out = {}

    async def main(loop):
        dev = SimDevice(loop, version=version, device_id=9, token=TOKEN, key=KEY, ac=ModelAC())
        net.listen("10.0.0.9", 6444, dev)
        idx = {"n": 0}

        def on_data(dev_, conn, frame):
            i = idx["n"]
            idx["n"] += 1
            d = pattern[i] if i < len(pattern) else None
            if d == "E":
                return ("error",)
            if d is None:
                if case.get("junk") and version == 3:
                    # instead of staying silent the device emits bytes without a packet start marker (line noise, a debug
                    # banner): they are no response, and must not disturb the answer to a later transmission
                    return ("garbage", bytes.fromhex(case["junk"]))
                return ("drop",)
            return ("answer", {"delay": d})

        if level == "lan":
            lan = LAN("10.0.0.9", 6444, 9)
        else:
            ac = AC(ip="10.0.0.9", port=6444, device_id=9)
            lan = ac._lan
        if case.get("lifetime"):
            # a configured connection lifetime that runs out while the exchange is waiting: the exchange itself is unaffected
            lan.max_connection_lifetime = case["lifetime"]
        if version == 3:
            await lan.authenticate(TOKEN, KEY)
        else:
            await lan._connect()
        if case.get("idle_before"):
            # the connection has carried an answered exchange and then sat idle for a while (nothing about the budget changes)
            await lan.send(FRAME)
            await asyncio.sleep(case["idle_before"])
        dev.on_data = on_data
        t0 = loop.time()
        n0 = len(dev.transmissions)
        if case.get("suspend"):
            # the host's wall clock jumps during the exchange (suspend/resume, VM pause, NTP step): the loop's monotonic clock,
            # which the timeouts run on, does not
            at, jump = case["suspend"]
            loop.call_later(at, lambda: setattr(loop, "wall_skew", loop.wall_skew + jump))
        try:
            if level == "lan":
                out["frames"] = await lan.send(FRAME, retries=r)
            elif level == "device":
                from msmart.device.AC.command import GetStateCommand
                out["frames"] = await ac._send_command(GetStateCommand())
            else:
                await ac.refresh()
                out["frames"] = None
                out["online"] = ac.online
        except Exception as e:
            out["exc"] = e
        out["t"] = loop.time() - t0
        out["tx"] = [t[2] for t in dev.transmissions[n0:]]
        out["tx_times"] = [round(t[0] - t0, 6) for t in dev.transmissions[n0:]]
        try:
            lan._disconnect()
        except Exception:
            pass

    vloop.run(main, net)
    want, t_want, n_want = reference_retry(r, pattern)
    n = len(out["tx"])
    if len({bytes(f) for f in out["tx"]}) > 1:
        return ("retry/frames-differ", "retransmitted frames are not byte-identical")
    if n != n_want:
        return ("retry/count", f"{n} transmissions at {out['tx_times']}, reference model says {n_want} (r={r}, pattern={pattern})")
    if abs(out["t"] - t_want) > 1e-3:
        return ("retry/time", f"call ended at t={out['t']:.3f}, reference model says {t_want:.3f} (r={r}, pattern={pattern})")
    exc = out.get("exc")
    if level == "lan":
        if want == "protocol":
            from msmart.lan import ProtocolError
            if not isinstance(exc, ProtocolError):
                return ("retry/no-protocol-error", f"error packet answered transmission {n_want} but outcome was {exc!r} / {out.get('frames')}")
        elif want == "timeout":
            if not isinstance(exc, TimeoutError):
                return ("retry/no-timeout", f"retries exhausted but outcome was {exc!r} / {out.get('frames')}")
        elif exc is not None or not out["frames"]:
            return ("retry/outcome", f"an answer arrived at {t_want} but outcome was {exc!r} / {out.get('frames')}")
    elif level == "device":
        if exc is not None:
            return (f"device/raises/{type(exc).__name__}", f"Device._send_command raised {exc!r}")
        if want in ("timeout", "protocol") and out["frames"] != []:
            return ("device/not-empty", f"{want} but _send_command returned {out['frames']}")
        if want == "frames" and not out["frames"]:
            return ("device/empty", "an answer arrived but _send_command returned nothing")
    else:
        if exc is not None:
            return (f"refresh/raises/{type(exc).__name__}", f"refresh raised {exc!r}")
        if out["online"] != (want == "frames"):
            return ("refresh/online", f"online={out['online']} but exchange outcome was {want}")
    return None


def check_retry_pair(case: dict):
    """Two consecutive exchanges on one connection: answers that arrive after the first exchange has returned are
    left over in the receive queue when the second one starts; the second must still obey the reference model."""
    from msmart.lan import LAN
    version, r = case["version"], case["r"]
    p1, p2 = case["pattern1"], case["pattern2"]
    net = vloop.Net()
    out = {}

    async def main(loop):
        dev = SimDevice(loop, version=version, device_id=9, token=TOKEN, key=KEY, ac=ModelAC())
        net.listen("10.0.0.9", 6444, dev)
        cur = {"pattern": p1, "n": 0}

        def on_data(dev_, conn, frame):
            i = cur["n"]
            cur["n"] += 1
            d = cur["pattern"][i] if i < len(cur["pattern"]) else None
            return ("drop",) if d is None else ("answer", {"delay": d})

        lan = LAN("10.0.0.9", 6444, 9)
        if version == 3:
            await lan.authenticate(TOKEN, KEY)
        else:
            await lan._connect()
        dev.on_data = on_data
        res = []
        for pattern in (p1, p2):
            cur["pattern"], cur["n"] = pattern, 0
            t0 = loop.time()
            n0 = len(dev.transmissions)
            rec = {}
            try:
                rec["frames"] = len(await lan.send(FRAME, retries=r))
            except Exception as e:
                rec["exc"] = e
            rec["t"] = loop.time() - t0
            rec["n"] = len(dev.transmissions) - n0
            res.append(rec)
            if "exc" in rec:
                break
            await asyncio.sleep(case.get("gap", 7.0))
        out["res"] = res
        try:
            lan._disconnect()
        except Exception:
            pass

    vloop.run(main, net)
    for which, (pattern, rec) in enumerate(zip((p1, p2), out["res"])):
        want, t_want, n_want = reference_retry(r, pattern)
        exc = rec.get("exc")
        tag = f"exchange {which + 1}"
        if rec["n"] != n_want:
            return ("pair/count", f"{tag}: {rec['n']} transmissions, reference model says {n_want} (patterns {p1} / {p2})")
        if abs(rec["t"] - t_want) > 1e-3:
            return ("pair/time", f"{tag}: ended at {rec['t']:.3f}, reference model says {t_want:.3f} (patterns {p1} / {p2})")
        if want == "timeout":
            if not isinstance(exc, TimeoutError):
                return ("pair/no-timeout", f"{tag}: every transmission went unanswered but the outcome was {exc!r} / {rec.get('frames')} frame(s) "
                        f"(patterns {p1} / {p2}: answers left over from the first exchange)")
        elif exc is not None or not rec.get("frames"):
            return ("pair/outcome", f"{tag}: an answer arrived but the outcome was {exc!r} / {rec.get('frames')}")
    return None


# ----------------------------------------------------------------------------- part B / C
def check_faults(case: dict):
    from msmart.device import AirConditioner as AC
    from msmart.lan import ProtocolError
    version = case["version"]
    faults = case["faults"]
    established = case.get("established", False)
    pause = case.get("pause", 0.0)
    net = vloop.Net()
    out = {"exchanges": []}

    async def main(loop):
        dev = SimDevice(loop, version=version, device_id=9, token=TOKEN, key=KEY, ac=ModelAC())
        net.listen("10.0.0.9", 6444, dev)
        mode = {"kind": None}

        def on_data(dev_, conn, frame):
            k = mode["kind"]
            if k in ("drop", "drop_hs", "cancel:retransmit"):
                return ("drop",)
            if k == "error_hs":
                return ("error",)       # (data requests on a still-authenticated connection get the error packet too)
            if k == "error":
                return ("error",)
            if k == "garbage":
                return ("garbage", bytes.fromhex(case.get("garbage", "00112233445566778899")))
            if k == "close":
                return ("close",)
            if k == "reset":
                return ("reset",)
            if k == "answer_fin":
                return ("answer", {"then": "fin"})       # the unit answers, then closes the connection (FIN)
            return None

        dev.on_data = on_data
        dev.hangup = case.get("hangup")
        orig_hs = dev._handshake

        def hs(conn, p):
            if mode["kind"] == "drop_hs":
                return
            if mode["kind"] == "error_hs":
                # the unit answers the (re-)authentication handshake with an error packet
                conn.send_stream(rc.v3_error_packet(), delay=dev.latency)
                return
            orig_hs(conn, p)
        dev._handshake = hs

        by_name = "lease" in faults
        if by_name:
            # the user configured the unit by host name; the name is looked up at every connect
            net.resolver["ac.lan"] = "10.0.0.9"
        ac = AC(ip="ac.lan" if by_name else "10.0.0.9", port=6444, device_id=9)
        lan = ac._lan
        if case.get("energy"):
            # configuration: refresh() consists of several queries (energy polling on): a fault may hit any one of them
            ac.enable_energy_usage_requests = True
        leases = {"n": 0, "ip": "10.0.0.9"}
        if case.get("lifetime"):
            # configuration: connections are renewed after this many seconds (recovery must not depend on it)
            ac.set_max_connection_lifetime(case["lifetime"])
        if version == 3:
            # the user authenticates once; every later exchange may have to re-authenticate by itself. Optionally the
            # caller gives up waiting during the 1 s settle pause that follows a successful handshake.
            if case.get("start") == "auth_cancel_pause":
                task = asyncio.ensure_future(ac.authenticate(TOKEN, KEY))
                await asyncio.sleep(0.5)
                task.cancel()
                try:
                    await task
                except BaseException:
                    pass
            else:
                await ac.authenticate(TOKEN, KEY)
            if not established:
                # ... and the connection went away meanwhile (peer closed it): the next exchange starts from scratch
                dev.conns[-1].close()
                await asyncio.sleep(0.01)

        device_level = case.get("level") == "device"

        async def exchange():
            if device_level:
                # through the public device API: never raises, reports through `online`
                n0 = len(dev.transmissions)
                await ac.refresh()
                if not ac.online:
                    if len(dev.transmissions) == n0 and mode["kind"] is None and not dev.connect_script:
                        out["silent_refresh"] = True       # refresh() of a promptly responding device transmitted nothing
                    raise TimeoutError("offline")
                return [dev.ac.state_frame(0x03)]
            return await lan.send(FRAME)

        if established:
            try:
                r = await exchange()
            except (TimeoutError, ProtocolError) as e:
                out["setup"] = f"the first exchange with a promptly responding device failed: {e!r}" + (
                    " (refresh() transmitted nothing)" if out.get("silent_refresh") else "")
                return
            if not r:
                out["setup"] = "established exchange failed"
                return
            if version == 3 and case.get("near_wrap"):
                # a connection that has been up for days: the 2-byte packet counter is about to run out of its field
                for i in range(16 + case["near_wrap"]):
                    if i < 16:
                        lan._protocol._packet_id += 4094      # 16 x 4095 packets later ...
                    try:
                        ok = await exchange()
                    except (TimeoutError, ProtocolError) as e:
                        ok = False
                    if not ok:
                        out["setup"] = "exchange failed while ageing the connection"
                        return

        for f in faults:
            mode["kind"] = f
            alive_before = lan._alive
            if f == "idle_reset":
                # the peer resets the connection while nothing is in flight; the next exchange is the "faulty" one
                for c in dev.conns:
                    c.close(reset=True)
                await asyncio.sleep(0.01)
            if f == "idle_fin":
                # the peer closes the idle connection gracefully (FIN)
                for c in dev.conns:
                    c.close()
                await asyncio.sleep(0.01)
            if f == "lease":
                # the unit reboots and comes back under a new address (new DHCP lease); the configured name follows it
                for c in dev.conns:
                    c.close(reset=True)
                net.tcp_hosts.pop((leases["ip"], 6444), None)
                leases["n"] += 1
                leases["ip"] = f"10.0.1.{leases['n']}"
                net.listen(leases["ip"], 6444, dev)
                net.resolver["ac.lan"] = leases["ip"]
                await asyncio.sleep(0.01)
            if f in ("reauth_cancel", "reauth_timeout") and version == 3:
                # the user re-authenticates explicitly (on whatever connection there is) and the unit is slow to answer the handshake:
                # the caller gives up after 0.5 s (reply on its way: arrives after 1 s), or every attempt times out (the reply to the
                # last request arrives after the call has ended).  This *is* the faulty exchange.
                rec = {"fault": f, "alive_before": alive_before}
                t0 = loop.time()
                if f == "reauth_cancel":
                    dev.hs_script = [("genuine", {"delay": 1.0})]
                    task = asyncio.ensure_future(ac.authenticate(TOKEN, KEY))
                    await asyncio.sleep(0.5)
                    task.cancel()
                else:
                    dev.hs_script = [("drop",), ("drop",), ("genuine", {"delay": 2.5})]
                    task = asyncio.ensure_future(ac.authenticate(TOKEN, KEY))
                try:
                    await task
                    rec["outcome"] = "frames"
                except asyncio.CancelledError:
                    rec["outcome"] = "cancelled"
                except (TimeoutError, ProtocolError):
                    rec["outcome"] = "timeout"
                except BaseException as e:
                    rec["outcome"] = "timeout" if type(e).__name__ == "AuthenticationError" else "other"
                    rec["exc"] = repr(e)
                await asyncio.sleep(1.0)        # (the late handshake reply arrives meanwhile)
                dev.hs_script = []
                rec["dt"] = round(loop.time() - t0, 3)
                out["exchanges"].append(rec)
                continue
            if f == "refuse":
                dev.connect_script.append("refuse")
            elif f == "hang":
                dev.connect_script.append("hang")
            rec = {"fault": f, "alive_before": alive_before}
            t0 = loop.time()
            if f.startswith("cancel:"):
                phase = f.split(":")[1]
                needs_conn = not alive_before
                authed = alive_before and (version == 2 or lan._protocol.authenticated)
                # phase start offsets (device latency 0.05 s, post-handshake pause 1 s)
                if version == 3 and not authed:
                    offs = {"hs_wait": 0.02, "hs_pause": 0.5, "data_wait": 1.07, "retransmit": 1.05 + 2.5}
                else:
                    offs = {"hs_wait": 0.02, "hs_pause": 0.02, "data_wait": 0.02, "retransmit": 2.5}
                offs["connect"] = 1.0
                if phase == "connect":
                    # the caller gives up while the TCP connect is still hanging (the connection went away before)
                    for c in dev.conns:
                        c.close()
                    await asyncio.sleep(0.01)
                    dev.connect_script.append("hang")
                task = asyncio.ensure_future(exchange())
                await asyncio.sleep(offs[phase] + case.get("cancel_jitter", 0.0))
                task.cancel()
                try:
                    res = await task
                    rec["outcome"] = "frames"
                except asyncio.CancelledError:
                    rec["outcome"] = "cancelled"
                except TimeoutError:
                    rec["outcome"] = "timeout"
                except ProtocolError:
                    rec["outcome"] = "protocol"
                except BaseException as e:
                    rec["outcome"] = "other"
                    rec["exc"] = repr(e)
            else:
                try:
                    res = await exchange()
                    rec["outcome"] = "frames" if isinstance(res, list) else "bad-return"
                except TimeoutError:
                    rec["outcome"] = "timeout"
                except ProtocolError:
                    rec["outcome"] = "protocol"
                except BaseException as e:
                    rec["outcome"] = "other"
                    rec["exc"] = repr(e)
            rec["dt"] = round(loop.time() - t0, 3)
            dev.connect_script.clear()
            out["exchanges"].append(rec)
        mode["kind"] = None
        if pause:
            await asyncio.sleep(pause)
        # the clean exchange: promptly responding device, no user intervention
        n_hs = sum(c.handshakes for c in dev.conns)
        try:
            res = await exchange()
            out["clean"] = [bytes(x) for x in res]
        except BaseException as e:
            out["clean_exc"] = e
        out["expected_reply"] = dev.ac.state_frame(0x03)
        await ac.refresh()
        out["online"] = ac.online
        out["log"] = [(round(e.t, 2), e.conn, e.kind, e.note) for e in dev.log][-14:]
        try:
            lan._disconnect()
        except Exception:
            pass

    vloop.run(main, net)
    if "setup" in out:
        return ("setup", out["setup"])
    for rec in out["exchanges"]:
        if rec["outcome"] in ("other", "bad-return"):
            return (f"fault/{rec['fault'].split(':')[0]}/escapes", f"faulty exchange ended outside the contract: {rec}")
    if out.get("silent_refresh"):
        return ("recovery/no-transmission", f"refresh() of a promptly responding device transmitted nothing (faults {faults}, lifetime {case.get('lifetime')}); exchanges {out['exchanges']}")
    if "clean_exc" in out:
        e = out["clean_exc"]
        return (f"recovery/{type(e).__name__}/after-{faults[-1]}", f"clean exchange after {faults} (pause {pause}) failed with {e!r}; exchanges {out['exchanges']}; device log {out['log']}")
    if not out["clean"] or out["clean"][-1] != out["expected_reply"]:
        return (f"recovery/reply/after-{faults[-1]}", f"clean exchange after {faults} returned {[c.hex()[:30] for c in out['clean']]}")
    if not out["online"]:
        return ("recovery/offline", f"refresh after recovery reports offline (faults {faults})")
    return None


def check_caps(case: dict):
    """Part D: a device-level call that consists of two exchanges (capabilities in two pages); one of the two is hit by a
    fault.  The call must not raise (a failed exchange is 'no response'), and the next refresh must succeed."""
    from msmart.device import AirConditioner as AC
    from .. import model_ac as M
    version = case["version"]
    net = vloop.Net()
    out = {}

    async def main(loop):
        m = ModelAC()
        recs = [M.cap_record(0x0214, b"\x01"), M.cap_record(0x0212, b"\x01"), M.cap_record(0x0216, b"\x01"), M.cap_record(0x021F, b"\x01")]
        m.cap_pages = [(recs[:2], b"\x01\x00"), (recs[2:], b"")]
        dev = SimDevice(loop, version=version, device_id=9, token=TOKEN, key=KEY, ac=m)
        net.listen("10.0.0.9", 6444, dev)
        state = {"n": 0, "armed": False}

        def on_data(dev_, conn, frame):
            if not state["armed"]:
                return None
            try:
                is_caps = rc.frame_parse(frame).body[0] == 0xB5
            except Exception:
                is_caps = False
            if not is_caps:
                return None
            page = state["n"]
            if frame != state.get("last"):
                state["last"] = frame
                state["n"] += 1
                page = state["n"] - 1
            else:
                page = state["n"] - 1
            if page == case["page"]:
                f = case["fault"]
                return {"drop": ("drop",), "error": ("error",), "garbage": ("garbage", b"\x00\x11\x22\x33"), "close": ("close",), "reset": ("reset",)}[f]
            return None
        dev.on_data = on_data
        ac = AC(ip="10.0.0.9", port=6444, device_id=9)
        if version == 3:
            await ac.authenticate(TOKEN, KEY)
        await ac.refresh()
        state["armed"] = True
        try:
            await ac.get_capabilities()
        except BaseException as e:
            out["exc"] = e
        state["armed"] = False
        out["requests"] = list(m.cap_requests)
        await ac.refresh()
        out["online"] = ac.online
        try:
            ac._lan._disconnect()
        except Exception:
            pass

    vloop.run(main, net)
    if "exc" in out:
        e = out["exc"]
        return (f"caps/raises/{type(e).__name__}", f"get_capabilities() raised {e!r} when its page-{case['page']} request hit fault {case['fault']!r}")
    if not out["online"]:
        return ("caps/recovery", f"refresh after the faulty capability query reports offline (fault {case['fault']} on page {case['page']})")
    return None


def check_case(case: dict):
    if case["part"] == "D":
        return check_caps(case)
    if case["part"] == "A":
        return check_retry(case)
    if case["part"] == "A2":
        return check_retry_pair(case)
    return check_faults(case)


def replay(ctx, case):
    return check_case(case)


def _run_one(ctx, case):
    import json
    if case["part"] == "D":
        ctx.case(hash(json.dumps(case, sort_keys=True)), True, cls=f"D/v{case['version']}/page{case['page']}")
        ctx.sample("D", case)
        return check_case(case)
    if case["part"] == "A":
        want, t, n = reference_retry(case["r"], case["pattern"])
        nt = n > 1
        cls = f"A/v{case['version']}/r={case['r']}/{want}/{case.get('level', 'lan')}"
    elif case["part"] == "A2":
        nt = True
        cls = f"A2/v{case['version']}/r={case['r']}"
    else:
        nt = True
        cls = f"{case['part']}/v{case['version']}/{'established' if case.get('established') else 'fresh'}/{len(case['faults'])}faults"
    ctx.case(hash(json.dumps(case, sort_keys=True)), nt, cls=cls)
    ctx.sample(cls.split("/")[0] + "/" + cls.split("/")[1], case)
    return check_case(case)


def run(ctx) -> None:
    n = 0
    rmax = 3 if ctx.quick else 4
    for version in (2, 3):
        for r in range(1, rmax + 1):
            for pattern in itertools.product([None] + DELAYS, repeat=r):
                n += 1
                if not ctx.mine(n):
                    continue
                case = {"part": "A", "version": version, "r": r, "pattern": list(pattern)}
                if n % 4 == 1:
                    case["lifetime"] = [2, 3, 4, 6][(n // 4) % 4]
                if version == 3 and n % 4 == 3 and None in pattern:
                    case["junk"] = ["00", "5a5a0111", "0011223344556677", "83", "ff" * 40][(n // 4) % 5]
                if n % 4 == 2:
                    case["idle_before"] = [1.0, 35.0, 95.0, 700.0][(n // 4) % 4]
                if n % 4 == 0:
                    case["suspend"] = [[0.5, 5.0], [1.0, 30.0], [2.5, 3600.0], [0.1, -3.0], [3.0, 7.0]][(n // 4) % 5]
                ctx.check(case, lambda c: _run_one(ctx, c))
                if r == 3 and (not ctx.quick or n % 4 == 0):
                    for level in ("device", "refresh"):
                        c2 = dict(case, level=level)
                        ctx.check(c2, lambda c: _run_one(ctx, c))
            # an error packet as answer after 0..r-1 unanswered transmissions: the exchange ends there, at every level
            for k in range(r):
                n += 1
                if not ctx.mine(n):
                    continue
                pat = [None] * k + ["E"] + [None] * (r - k - 1)
                for level in ("lan", "device", "refresh"):
                    if level != "lan" and r != 3:
                        continue
                    ctx.check({"part": "A", "version": version, "r": r, "pattern": pat, "level": level}, lambda c: _run_one(ctx, c))
    ctx.sweep("part A: retry budget x answer/delay patterns x {V2,V3}", n, True)

    # part D: two-page capability query, one page hit by a fault
    dd = 0
    for version in (2, 3):
        for page in (0, 1):
            for fault in ("drop", "error", "garbage", "close", "reset"):
                dd += 1
                if ctx.mine(dd):
                    ctx.check({"part": "D", "version": version, "page": page, "fault": fault}, lambda c: _run_one(ctx, c))
    ctx.sweep("part D: two-page capability query x page hit x fault x {V2,V3}", dd, True)

    # part A2: pairs of exchanges; the first leaves late answers behind
    k = 0
    for version in (2, 3):
        for r in (2, 3):
            firsts = [p for p in itertools.product([None] + DELAYS, repeat=r)
                      if reference_retry(r, list(p))[0] == "frames" and sum(1 for i, d in enumerate(p) if d is not None and 2 * i <= reference_retry(r, list(p))[1]) >= 2]
            seconds = [tuple([None] * r), tuple([0.05] + [None] * (r - 1)), tuple([None] * (r - 1) + [0.05]), tuple([2.05] + [None] * (r - 1))]
            for p1 in firsts:
                for p2 in seconds:
                    k += 1
                    if not ctx.mine(k):
                        continue
                    if ctx.quick and k % 3:
                        continue
                    case = {"part": "A2", "version": version, "r": r, "pattern1": list(p1), "pattern2": list(p2)}
                    ctx.check(case, lambda c: _run_one(ctx, c))
    ctx.sweep("part A2: exchange with left-over late answers followed by a second exchange", k, not ctx.quick)

    m = 0
    combos = [(f,) for f in FAULTS] + list(itertools.product(FAULTS, repeat=2))
    for version in (2, 3):
        for established in (False, True):
            for faults in combos:
                for pause in (0.0, 3.0):
                    m += 1
                    if not ctx.mine(m):
                        continue
                    case = {"part": "B", "version": version, "established": established, "faults": list(faults), "pause": pause}
                    if version == 3 and m % 3 == 0:
                        case["start"] = "auth_cancel_pause"
                    if version == 3 and established and m % 5 == 0:
                        case["near_wrap"] = 17
                    if m % 4 == 2:
                        case["level"] = "device"
                        if m % 8 == 2:
                            case["energy"] = True
                    if m % 3 == 1:
                        case["lifetime"] = [1, 2, 5, 30][(m // 3) % 4]
                    ctx.check(case, lambda c: _run_one(ctx, c))
    ctx.sweep("part B: single faults and ordered pairs x {V2,V3} x {fresh,established} x {immediately, after a pause}", m, True)

    cases = st.fixed_dictionaries({
        "part": st.just("C"), "version": st.sampled_from([2, 3, 3]), "established": st.booleans(),
        "faults": st.lists(st.sampled_from(FAULTS), min_size=1, max_size=6),
        "pause": st.sampled_from([0.0, 0.0, 0.01, 0.04, 0.06, 0.5, 1.2, 3.0, 30.0]),
        "cancel_jitter": st.sampled_from([0.0, 0.0, 0.01, -0.01, 0.025]),
        "garbage": st.binary(min_size=1, max_size=40).map(lambda b: b.hex()), "start": st.sampled_from(["auth", "auth", "auth_cancel_pause"]), "near_wrap": st.sampled_from([0, 0, 0, 17]), "level": st.sampled_from(["lan", "lan", "device"]), "lifetime": st.sampled_from([None, None, 1, 3, 10, 60]),
        "hangup": st.sampled_from([None, None, None, "fin", "rst", "fin_same", "rst_same"]), "energy": st.booleans()})
    ctx.hyp("part C", cases, lambda c: _run_one(ctx, c), ctx.n(1600, 96000))
