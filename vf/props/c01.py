"""C01  End-to-end fidelity: applied state reaches the device; device state is read back."""
from __future__ import annotations

from hypothesis import strategies as st

from .. import acutil, gens, vloop
from ..devsim import SimDevice
from ..model_ac import ModelAC

ID = "C01"
LEVEL = "exploration"
SHARDS = {"quick": 8, "thorough": 16}
RULE = ("case = (protocol version 2|3; 48-bit device id; for V3 a 64-byte token and 32-byte key each given as bytes or hex string; "
        "applied = full settable state; initial = independent device state incl. display, sensors, filter flag; per-exchange "
        "delivery script: cut set and inter-chunk gap (V3: any cut set incl. byte-by-byte and coalescing; V2: one segment per "
        "packet) and 0..3 unsolicited frames before/after the solicited reply from {duplicate of the reply, spontaneous 0xC0 "
        "report of the old/current state, 0xA0/0xA1 reports, type-5 0xB5 notification, a checksum-valid property report whose last record is cut short}; optionally the device pushes such frames - one, or a backlog of up to 100 - on the idle connection before the apply, and the client may then stay idle for up to 30 h; the unit forgets a V3 session key 12 h + 1 min after the handshake; optionally the caller hands the setters plain numbers (integral setpoint as int, switches as 1/0); optionally a poll of client A is still in flight when A applies; optionally (V3) A has just abandoned an explicit re-authentication whose handshake reply arrives late; optionally the unit hangs up after every answer - FIN or RST, seen by the client's event loop after or in the same pass as the answer; optionally the host's local time zone ends or begins daylight saving time during the idle period). (a) client A refreshes, sets every "
        "attribute, apply(): the model device's state decoded with its own vendor-layout decoder must equal applied field by "
        "field, non-settable fields unchanged, no frame rejected, every packet carries the configured device id, and A's "
        "attributes equal applied. (b) a fresh client B (new object, connection, handshake) refresh(): B's attributes equal the "
        "model's state (enum members / raw custom fan), sensor temperatures by C11's predicate, online and supported. (c) optionally the history continues: another party (client B, or the remote control) changes the unit, then client A applies the same state again and the unit must be in it again. "
        "Non-trivial: applied != initial in >= 3 fields and (V3 or setpoint outside 17..30 or half degree or a cut inside a "
        "packet or an unsolicited frame). Distinct by whole case.")
ASSUMPTIONS = ["two requests outstanding at once are only generated on an established connection (when both callers first have to (re)connect or re-authenticate, the unchanged library lets an AttributeError escape LAN.send: concurrent connection set-up is in no listed property's domain; noted in DESIGN 9.6 round 13)", "a unit that hangs up after every answer is not combined with two requests outstanding at once (the second request is then lost with the connection: a fault, C08's domain)", "V2 has no stream reassembly by design: V2 replies are delivered one packet per segment (generator soundness restriction, DESIGN C01 N)",
               "the model device echoes its state after a 0x40 command as real devices do"]

TOKENS = ["DUP", "STATE", "STATE_OLD", "A0", "A1", "B5N", "B1X"]
# the host's local time zone and the (UTC) instant the case starts at: the evening before daylight saving time ends / begins
ZONES = [{}, {}, {"tz": "CET-1CEST,M3.5.0,M10.5.0/3", "start": [2024, 10, 26, 20, 0]}, {"tz": "EST5EDT,M3.2.0,M11.1.0", "start": [2024, 11, 3, 2, 0]},
         {"tz": "CET-1CEST,M3.5.0,M10.5.0/3", "start": [2024, 3, 30, 20, 0]}]


def _check_once(case: dict):
    from msmart.device import AirConditioner as AC
    version = case["version"]
    dev_id = case["id"]
    token = bytes.fromhex(case["token"])
    key = bytes.fromhex(case["key"])
    applied = case["applied"]
    script = case["script"]
    net = vloop.Net()
    res = {}

    async def main(loop):
        if case.get("start"):
            loop.wall_skew = vloop.seconds_from_epoch(*case["start"])
        m = ModelAC(gens.to_acstate(case["initial"]))
        dev = SimDevice(loop, version=version, device_id=dev_id, ac=m, token=token, key=key)
        dev.hangup = case.get("hangup")
        dev.key_lifetime = 12 * 3600.0 + 60.0      # the unit forgets a session key after 12 h (one minute of grace)
        counter = {"n": 0}

        def on_data(dev_, conn, frame):
            sc = script[counter["n"] % len(script)] if script else {}
            counter["n"] += 1
            post = [t for t in sc.get("post", []) if t != "STATE_OLD"]     # a report of the old state only ever precedes the reply
            opts = {"pre": sc.get("pre", []), "post": post, "gap": sc.get("gap", 0.0), "delay": sc.get("delay", 0.05)}
            if version == 3:
                opts["cuts"] = sc.get("cuts", [])
                if sc.get("bytewise"):
                    opts["cuts"] = list(range(1, 2000))
                    opts["gap"] = min(opts["gap"], 0.0005)
            # the device answers promptly: everything is on the wire well inside the 2 s read timeout
            nchunks = (len(opts.get("cuts", [])) + 1) if version == 3 else (len(opts["pre"]) + len(post) + 2)
            if sc.get("bytewise") and version == 3:
                nchunks = 1200
            if opts["delay"] + opts["gap"] * nchunks > 1.5:
                opts["delay"] = 0.05
                opts["gap"] = min(opts["gap"], 1.0 / nchunks)
            return ("answer", opts)

        dev.on_data = on_data
        net.listen("10.0.0.9", 6444, dev)
        before = m.state.copy()

        async def connect():
            ac = AC(ip="10.0.0.9", port=6444, device_id=dev_id)
            if version == 3:
                await ac.authenticate(token.hex() if case.get("token_form") == "hex" else token,
                                      key.hex() if case.get("key_form") == "hex" else key)
            return ac

        a = await connect()
        await a.refresh()
        res["a_online"] = a.online
        if case.get("idle_push"):
            # while client A is idle the device pushes reports on A's connection (they are already waiting when A calls next)
            import asyncio
            conn_a = dev.conns[-1]
            push = {"STATE": m.state_frame(0x03), "A0": None, "B5N": None}
            from .. import refcodec as rc
            for tok in case["idle_push"]:
                fr = m.state_frame(0x03) if tok == "STATE" else (rc.frame_build(0x05, bytes([0xA0]) + bytes(range(1, 22)), proto=3) if tok == "A0"
                                                                 else rc.frame_build(0x05, bytes([0xB5, 0x01, 0x12, 0x02, 0x01, 0x01]), proto=3))
                for _ in range(case.get("push_repeat", 1)):
                    conn_a.tr.feed_later(0.01, dev.wrap(conn_a, fr))
            await asyncio.sleep(0.1)
        if case.get("idle_hours"):
            # ... and client A stays idle for a long time (around or past the 12 h session lifetime on V3), with any such reports unread
            import asyncio
            await asyncio.sleep(case["idle_hours"] * 3600.0)
        if case.get("reauth_abandoned") and version == 3:
            # history: client A re-authenticates explicitly on its live connection, the unit is slow to answer the handshake (1 s) and
            # the caller gives up after 0.5 s; the reply arrives afterwards.  Then A applies.
            import asyncio
            dev.hs_script = [("genuine", {"delay": 1.0})]
            t_auth = asyncio.ensure_future(a.authenticate(token, key))
            await asyncio.sleep(0.5)
            t_auth.cancel()
            try:
                await t_auth
            except BaseException:
                pass
            await asyncio.sleep(case["reauth_abandoned"])
            dev.hs_script = []
        bg = None
        if case.get("inflight"):
            # schedule: a poll of the same object is still waiting for its answer (request sent 0.1 s ago, the unit takes 0.3 s) when the
            # user sets the attributes and calls apply(): the state requested at that call is what must reach the unit
            import asyncio
            saved_on_data = dev.on_data
            dev.on_data = lambda dev_, conn, frame: ("answer", {"delay": 0.3})
            bg = asyncio.ensure_future(a.refresh())
            await asyncio.sleep(0.1)
        acutil.set_attrs(a, applied, case.get("forms", ""))
        await a.apply()
        if bg is not None:
            await bg
            dev.on_data = saved_on_data
        res["a_attrs"] = acutil.read_attrs(a)
        res["model_after"] = m.state.copy()
        res["before"] = before
        b = await connect()
        await b.refresh()
        res["b_attrs"] = acutil.read_attrs(b)
        if case.get("again"):
            # history A, B, A: somebody else (client B, or the remote control) puts the unit into another state, then client A -
            # the same object as before - applies its state again: it must reach the unit again
            other = dict(applied, power=not applied["power"], mode=1 + applied["mode"] % 5, target=20.5 if applied["target"] != 20.5 else 26.0,
                         fan=60 if applied["fan"] != 60 else 80, eco=not applied["eco"], swing=0xF if applied["swing"] != 0xF else 0x0)
            if case["again"] == "client":
                acutil.set_attrs(b, other)
                await b.apply()
            else:
                for k_, v_ in acutil.expected_model_fields(other).items():
                    setattr(m.state, k_, v_)
            res["model_other"] = m.state.copy()
            res["other"] = other
            acutil.set_attrs(a, applied)
            await a.apply()
            res["model_again"] = m.state.copy()
        res["rejected"] = list(m.rejected)
        res["ids"] = sorted({t[3] for t in dev.transmissions})
        res["undecodable"] = [(e.kind, e.note) for e in dev.log if e.kind == "undecodable"]
        res["conns"] = len(dev.conns)
        a._lan._disconnect()
        b._lan._disconnect()

    with vloop.host_timezone(case.get("tz")):
        vloop.run(main, net)
    if res["rejected"]:
        return ("device-rejects", f"model device rejected a frame: {res['rejected'][0][1]}")
    if res["undecodable"]:
        return ("device-undecodable", f"device could not decode a packet: {res['undecodable'][:2]}")
    if res["ids"] != [dev_id]:
        return ("device-id", f"packets carried device ids {res['ids']}, configured {dev_id}")
    if not res["a_online"]:
        return ("a/offline", "client A offline after refresh against a responsive device")
    st_after = res["model_after"]
    want = acutil.expected_model_fields(applied)
    diffs = acutil.diff_model(st_after, want)
    if diffs:
        return (f"apply/{diffs[0].split(':')[0]}", "device state after apply: " + "; ".join(diffs))
    for k in ("display_on", "indoor_raw", "outdoor_raw", "indoor_tenths", "outdoor_tenths", "filter_alert"):
        if getattr(st_after, k) != getattr(res["before"], k):
            return (f"apply/unsettable-changed/{k}", f"{k} changed from {getattr(res['before'], k)} to {getattr(st_after, k)}")
    exp = acutil.expected_attrs_from_model(st_after)
    for who in (("b_attrs",) if case.get("inflight") else ("a_attrs", "b_attrs")):      # (what client A shows after a poll overlapped its apply is not specified)
        got = res[who]
        if who == "b_attrs" and not (got["online"] and got["supported"]):
            return ("b/offline", f"fresh client after refresh: online={got['online']} supported={got['supported']}")
        for k, v in exp.items():
            if got[k] != v:
                return (f"{who[0]}/{k}", f"client {who[0].upper()} attribute {k} = {got[k]!r}, device state {v!r}")
        if got["mode_type"] != "OperationalMode" or got["swing_type"] != "SwingMode":
            return (f"{who[0]}/enum-type", f"mode/swing exposed as {got['mode_type']}/{got['swing_type']}")
        member = st_after.fan in (102, 100, 80, 60, 40, 20)
        if member != (got["fan_type"] == "FanSpeed"):
            return (f"{who[0]}/fan-type", f"fan {st_after.fan} exposed as {got['fan_type']}")
        if not acutil.temp_ok(got["indoor"], st_after.indoor_raw, st_after.indoor_tenths, st_after.fahrenheit):
            return (f"{who[0]}/indoor", f"indoor {got['indoor']!r} for raw {st_after.indoor_raw} tenths {st_after.indoor_tenths}")
        if not acutil.temp_ok(got["outdoor"], st_after.outdoor_raw, st_after.outdoor_tenths, st_after.fahrenheit):
            return (f"{who[0]}/outdoor", f"outdoor {got['outdoor']!r} for raw {st_after.outdoor_raw} tenths {st_after.outdoor_tenths}")
    if version == 3 and res["conns"] != 2 and not case.get("hangup") and not case.get("reauth_abandoned"):
        return ("connections", f"{res['conns']} connections for two clients")
    if "model_again" in res:
        d0 = acutil.diff_model(res["model_other"], acutil.expected_model_fields(res["other"]))
        if d0:
            return (f"apply-other/{d0[0].split(':')[0]}", "device state after the other party's change: " + "; ".join(d0))
        d1 = acutil.diff_model(res["model_again"], want)
        if d1:
            return (f"apply-again/{d1[0].split(':')[0]}", f"client A applied its state again after {case['again']} changed the unit, device state: " + "; ".join(d1))
    return None


def _early_unsolicited(case) -> bool:
    return any((sc.get("pre") or sc.get("post")) and sc.get("gap", 0.0) > 0 for sc in case["script"])


def check_case(case: dict):
    v = _check_once(case)
    if v is not None and _early_unsolicited(case):
        # root-cause classification: does the failure vanish when the unsolicited frames that precede a reply
        # arrive in the same instant as the reply (instead of an earlier segment)?
        same_instant = dict(case, script=[dict(sc, gap=0.0) if (sc.get("pre") or sc.get("post")) else sc for sc in case["script"]])
        if _check_once(same_instant) is None:
            return ("non-reply-frame-ends-exchange", "a frame other than the solicited reply (unsolicited report, or a late duplicate of the "
                    "previous reply) that arrives in a separate, earlier TCP segment is taken as the answer, so the exchange returns "
                    "without the reply: " + v[0] + ": " + v[1])
    return v


def replay(ctx, case):
    return check_case(case)


def _nt(case) -> bool:
    ini = gens.to_acstate(case["initial"])
    want = acutil.expected_model_fields(case["applied"])
    nd = sum(1 for k, v in want.items() if getattr(ini, k) != v)
    if nd < 3:
        return False
    t = case["applied"]["target"]
    if case["version"] == 3 or t < 17 or t >= 31 or t != int(t):
        return True
    return any(s.get("pre") or s.get("post") or s.get("cuts") or s.get("bytewise") for s in case["script"])


def _run_one(ctx, case):
    import json
    nt = _nt(case)
    ctx.case(hash(json.dumps(case, sort_keys=True)), nt, cls=f"v{case['version']}")
    if any(s.get("pre") or s.get("post") for s in case["script"]):
        ctx.label("with unsolicited frames")
    if any(s.get("cuts") or s.get("bytewise") for s in case["script"]) and case["version"] == 3:
        ctx.label("with cuts inside packets")
    ctx.sample(f"v{case['version']}" + ("/nt" if nt else ""), case)
    return check_case(case)


def cases():
    hexb = lambda s_: s_.map(lambda b: b.hex())
    exch = st.fixed_dictionaries({}, optional={
        "pre": st.lists(st.sampled_from(TOKENS), max_size=2), "post": st.lists(st.sampled_from(TOKENS), max_size=2),
        "cuts": st.lists(st.integers(1, 600), max_size=6, unique=True).map(sorted), "gap": st.sampled_from([0.0, 0.0005, 0.01, 0.2]),
        "delay": st.sampled_from([0.01, 0.05, 0.5, 1.2]), "bytewise": st.sampled_from([False, False, False, False, True])})
    return st.fixed_dictionaries({
        "version": st.sampled_from([2, 3, 3]), "id": gens.device_ids(48), "token": hexb(gens.tokens64()), "key": hexb(gens.keys32()),
        "token_form": st.sampled_from(["bytes", "hex"]), "key_form": st.sampled_from(["bytes", "hex"]),
        "applied": gens.settable_states(), "initial": gens.device_states(), "script": st.lists(exch, min_size=0, max_size=4)},
        optional={"idle_push": st.lists(st.sampled_from(["STATE", "STATE", "A0", "B5N"]), min_size=1, max_size=3), "again": st.sampled_from([None, "client", "remote"]),
                  "idle_hours": st.sampled_from([0, 0, 1, 11.9, 12.5, 13, 30]), "push_repeat": st.sampled_from([1, 1, 1, 40, 100]),
                  "hangup": st.sampled_from([None, None, "fin", "rst", "fin_same", "rst_same"]),
                  "inflight": st.sampled_from([False, False, False, True]), "forms": st.sampled_from(["", "", "plain"]), "reauth_abandoned": st.sampled_from([0, 0, 0, 0.1, 0.8]),
                  "zone": st.sampled_from(ZONES)}).map(lambda c: dict({k_: v_ for k_, v_ in c.items() if k_ != "zone" and not (k_ == "inflight" and (c.get("hangup") or c.get("reauth_abandoned")))}, **c.get("zone", {})))


def run(ctx) -> None:
    # deterministic: reports pushed on the idle connection (one, or a backlog of 100), then a short or a long idle period
    import hashlib
    k = 0
    for version in (2, 3):
        for push in (["STATE"], ["A0", "STATE"], ["B5N"]):
            for repeat in (1, 100):
                for hours in (0, 13):
                    k += 1
                    if ctx.mine(k):
                        d = hashlib.sha256(b"c01 det %d" % k).digest()
                        case = {"version": version, "id": int.from_bytes(d[:6], "big"), "token": hashlib.sha512(d).hexdigest(), "key": hashlib.sha256(d + b"k").hexdigest(),
                                "token_form": "bytes", "key_form": "hex",
                                "applied": {"power": True, "mode": 1 + k % 5, "target": 17.0 + (k % 20) * 0.5, "fan": [40, 60, 80, 102][k % 4], "swing": [0, 0xC, 0x3, 0xF][k % 4], "eco": bool(k & 1),
                                            "turbo": False, "sleep": bool(k & 2), "fahrenheit": False, "freeze": False, "follow_me": False, "purifier": bool(k & 4), "humidity": 40 + k % 30,
                                            "aux": k % 3, "beep": bool(k & 1)},
                                "initial": dict(gens.DEVICE_STATE_EXAMPLE) if hasattr(gens, "DEVICE_STATE_EXAMPLE") else None, "script": [],
                                "idle_push": push, "push_repeat": repeat, "idle_hours": hours}
                        if case["initial"] is None:
                            case["initial"] = {"power": False, "mode": 2, "target": 24.0, "fan": 80, "swing": 0, "eco": False, "turbo": 0, "sleep": False, "fahrenheit": False,
                                               "freeze": False, "follow_me": False, "purifier": False, "humidity": 45, "aux": 0, "display_on": True, "indoor_raw": 92,
                                               "outdoor_raw": 104, "indoor_tenths": 3, "outdoor_tenths": 0, "filter_alert": False}
                        ctx.check(case, lambda c: _run_one(ctx, c))
    # deterministic: the unit hangs up after every answer (FIN or RST; seen by the client's loop after or together with the answer); the
    # client idles around the 12 h key lifetime while the host's local time repeats an hour
    for version in (2, 3):
        for hangup in (None, "fin", "rst", "fin_same", "rst_same"):
            for hours, zone in ((0, {}), (12.5, ZONES[2]), (12.7, ZONES[3]), (11.9, ZONES[4]), (0, ZONES[2])):
                k += 1
                if ctx.mine(k):
                    d = hashlib.sha256(b"c01 det %d" % k).digest()
                    case = dict({"version": version, "id": int.from_bytes(d[:6], "big"), "token": hashlib.sha512(d).hexdigest(), "key": hashlib.sha256(d + b"k").hexdigest(),
                                 "token_form": "bytes", "key_form": "bytes",
                                 "applied": {"power": True, "mode": 1 + k % 5, "target": 17.0 + (k % 20) * 0.5, "fan": [40, 60, 80, 102][k % 4], "swing": [0, 0xC, 0x3, 0xF][k % 4], "eco": bool(k & 1),
                                             "turbo": False, "sleep": bool(k & 2), "fahrenheit": False, "freeze": False, "follow_me": False, "purifier": bool(k & 4), "humidity": 40 + k % 30,
                                             "aux": k % 3, "beep": bool(k & 1)},
                                 "initial": {"power": False, "mode": 2, "target": 24.0, "fan": 80, "swing": 0, "eco": False, "turbo": 0, "sleep": False, "fahrenheit": False,
                                             "freeze": False, "follow_me": False, "purifier": False, "humidity": 45, "aux": 0, "display_on": True, "indoor_raw": 92,
                                             "outdoor_raw": 104, "indoor_tenths": 3, "outdoor_tenths": 0, "filter_alert": False}, "script": [], "idle_hours": hours, "again": "remote"}, **zone)
                    if k % 3 == 0:
                        case["forms"] = "plain"
                    if hangup:
                        case["hangup"] = hangup
                    elif k % 2 == 0:
                        case["inflight"] = True
                    elif version == 3:
                        case["reauth_abandoned"] = [0.1, 0.8][k % 4 // 2]
                    ctx.check(case, lambda c: _run_one(ctx, c))
    ctx.sweep("reports pushed on the idle connection x backlog size x idle period x version; hang-up personality x idle period x host time zone x version", k, True)
    ctx.hyp("end-to-end", cases(), lambda c: _run_one(ctx, c), ctx.n(4000, 160000))
