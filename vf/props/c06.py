"""C06  V3 handshake: key agreement when genuine, sound rejection otherwise."""
from __future__ import annotations

import hashlib

from hypothesis import strategies as st

from .. import gens, vloop
from .. import refcodec as rc
from ..devsim import SimDevice
from ..model_ac import ModelAC

ID = "C06"
LEVEL = "exploration"
SHARDS = {"quick": 8, "thorough": 16}
RULE = ("(the reply may arrive in several TCP segments; a sweep uses nonces for which the genuine reply contains the start marker 83 70, cut at every position) case = (token 64B, key 32B, each passed as bytes or hex string, device nonce, prior state fresh / previously "
        "authenticated with other good credentials / an earlier attempt timed out and its late replies arrived afterwards / the same credentials authenticated more than 12 h ago on this connection, reply mutation). Mutations: genuine; every single-bit flip of the 64-byte "
        "reply body (512, exhaustive); body length 0/32/63/65/96/128; 1..15 extra bytes with the header's pad nibble set to that count; every packet type nibble 0..15 in place of 1; error "
        "packet; reply built under a different key (random or 1 bit different); hash of a different nonce; silence; only the first 0..71 bytes of the genuine reply followed by the unit's hang-up; optionally a status report under the new key or a second genuine handshake reply in the same segment right behind the reply; optionally a slow TCP connect (up to 4.9 s) and a slow reply (up to 1.9 s); any unacceptable reply optionally followed by the unit's hang-up (FIN or RST, seen by the client's loop after or in the same pass as the reply). Oracle: "
        "genuine => Device.authenticate returns, a following refresh() is decrypted by the model under the new session key and "
        "succeeds, Device.token/key == supplied (hex). Otherwise => AuthenticationError exactly, the model saw nothing but "
        "handshake requests carrying the supplied token during the call, Device.token/key unchanged, and (fresh prior) a "
        "following send raises AuthenticationError with no data packet reaching the model. Non-trivial: a mutated reply that "
        "keeps length 64 and type 1, or the genuine reply with a hex-string credential. Distinct by (creds, mutation, prior).")
ASSUMPTIONS = ["the model device draws a fresh nonce per handshake request and moves to the new session key whenever it sends a reply"]

FRAME = bytes.fromhex("aa21ac8d000000000003418100ff03ff000200000000000000000000000003016971")


def _creds(seed: int):
    return hashlib.sha512(b"tok%d" % seed).digest(), hashlib.sha256(b"key%d" % seed).digest()


def check_case(case: dict):
    from msmart.device import AirConditioner as AC
    from msmart.lan import AuthenticationError
    token = bytes.fromhex(case["token"])
    key = bytes.fromhex(case["key"])
    mut = case["mut"]
    prior = case.get("prior", "fresh")
    gtoken, gkey = _creds(999)           # the "other good credentials" of the prior-authenticated state
    net = vloop.Net()
    out = {}

    def nonce_source(n):
        return hashlib.sha256(bytes.fromhex(case.get("nonce", "00")) + bytes([n & 0xFF])).digest()

    async def main(loop):
        dev = SimDevice(loop, version=3, device_id=case.get("id", 77), token=token, key=key, ac=ModelAC(), nonce_source=nonce_source)
        dev.accepted_tokens = {token, gtoken}
        net.listen("10.0.0.9", 6444, dev)
        ac = AC(ip="10.0.0.9", port=6444, device_id=case.get("id", 77))
        if prior == "authed":
            # the device knows two credential pairs; session key derivation uses the pair matching the token
            real_key = dev.key
            dev.key = gkey
            await ac.authenticate(gtoken, gkey)
            await ac.refresh()
            dev.key = real_key
            if not ac.online:
                out["setup_failed"] = True
        if prior == "expired":
            # same credentials authenticated more than 12 h ago on this very connection
            import asyncio
            await ac.authenticate(token, key)
            await ac.refresh()
            if not ac.online:
                out["setup_failed"] = True
            await asyncio.sleep(12 * 3600 + 60)
        if prior == "late":
            # an earlier authentication attempt timed out: the device's replies were delayed past the whole retry
            # budget, arrived afterwards on the still open connection, and the user tries again later
            import asyncio
            dev.default_hs_action = ("genuine", {"delay": 6.5})
            try:
                await ac.authenticate(token, key)
                out["setup_failed"] = True
            except AuthenticationError:
                pass
            await asyncio.sleep(10)
            dev.default_hs_action = ("genuine", {})
        before = (ac.token, ac.key)
        mark = len(dev.log)
        kind = mut[0]
        if kind == "genuine" and case.get("lost_first"):
            # the first `lost_first` handshake requests get lost on the way (never reach the unit's application): the client asks
            # again within its retry budget and the genuine reply to that request authenticates
            dev.hs_script = [("drop",)] * case["lost_first"]
        if kind == "genuine":
            if case.get("cuts"):
                # the genuine reply reaches the client in several TCP segments (all of them well within the 2 s read timeout:
                # a reply slower than that is answered by a retransmitted handshake, the "late" prior state above)
                cuts = list(case["cuts"])
                dev.default_hs_action = ("genuine", {"cuts": cuts, "gap": min(case.get("gap", 0.01), 1.4 / len(cuts))})
        elif kind == "flip":
            bit = mut[1]
            def m(body, bit=bit):
                b = bytearray(body)
                b[bit // 8] ^= 1 << (bit % 8)
                return bytes(b)
            dev.default_hs_action = ("genuine", {"mutate": m})
        elif kind == "len":
            n = mut[1]
            dev.default_hs_action = ("genuine", {"mutate": lambda body, n=n: (body * 3)[:n]})
        elif kind == "lenpad":
            # N extra bytes after the genuine 64, with the header's pad nibble set to N (or to another value)
            n, nib = mut[1], mut[2]
            dev.default_hs_action = ("genuine", {"mutate": lambda body, n=n: body + bytes(range(1, n + 1)), "padnibble": nib})
        elif kind == "ptype":
            dev.default_hs_action = ("genuine", {"ptype": mut[1]})
        elif kind == "error":
            dev.default_hs_action = ("error", {})
        elif kind == "wrongkey":
            if mut[1] == "random":
                wk = hashlib.sha256(b"wrong" + key).digest()
            else:
                b = bytearray(key)
                b[mut[1] // 8] ^= 1 << (mut[1] % 8)
                wk = bytes(b)
            dev.default_hs_action = ("genuine", {"key": wk})
        elif kind == "othernonce":
            def m2(body):
                return body[:32] + hashlib.sha256(b"another nonce").digest()
            dev.default_hs_action = ("genuine", {"mutate": m2})
        elif kind == "silence":
            dev.default_hs_action = ("drop",)
        elif kind == "nobudget":
            pass        # (the call below asks for zero attempts: no request can go out, so no reply can prove anything)
        elif kind == "raw":
            dev.default_hs_action = ("raw", bytes.fromhex(mut[1]))
        elif kind == "partial":
            # only the first n bytes of the genuine reply arrive (the framer keeps waiting for the rest), then the unit hangs up
            dev.default_hs_action = ("genuine", {"trunc": mut[1], "then": mut[2]})
        else:
            raise ValueError(kind)
        if case.get("behind") and dev.default_hs_action[0] == "genuine" and kind not in ("partial",) and not (kind == "genuine" and case["behind"] == "reply2"):
            # (a second reply behind the *genuine* one is left out: which of the two keys such a unit would go on with is not documented)
            # another packet arrives in the same segment right behind the (genuine or mutated) reply: a status report under the new
            # session key, or a second genuine handshake reply.  The reply to the request decides, not what follows it.
            dev.default_hs_action = ("genuine", dict(dev.default_hs_action[1], behind=case["behind"]))
        if case.get("connect_delay") and prior == "fresh":
            # the TCP connect itself is slow (but inside the 5 s connect timeout) and the reply takes a while as well
            dev.connect_script = [f"slow:{case['connect_delay']}"]
            if kind == "genuine" and not case.get("cuts"):
                dev.default_hs_action = ("genuine", dict(dev.default_hs_action[1], delay=case.get("reply_delay", 0.05)))
        if case.get("then") and kind not in ("genuine", "partial", "silence", "nobudget", "raw") and dev.default_hs_action[0] in ("genuine", "error"):
            # the unit hangs up behind its (unacceptable) reply: FIN or RST, seen by the client's loop after or in the same pass as the reply
            dev.default_hs_action = (dev.default_hs_action[0], dict(dev.default_hs_action[1], then=case["then"]))

        def form(b, how):
            # hex text in the spellings bytes.fromhex() reads: plain, upper case, bytes separated by blanks, wrapped lines
            if how == "hex":
                return b.hex()
            if how == "HEX":
                return b.hex().upper()
            if how == "hex_spaced":
                return b.hex(" ")
            if how == "hex_wrapped":
                h = b.hex()
                return "\n".join(h[i:i + 32] for i in range(0, len(h), 32)) + "\n"
            return b
        targ = form(token, case.get("token_form"))
        karg = form(key, case.get("key_form"))
        try:
            if kind == "nobudget" and prior in ("fresh", "late"):
                await ac._lan.authenticate(targ, karg, retries=mut[1])
            elif kind == "nobudget":
                raise AuthenticationError("(not applicable in this prior state: an already authenticated session needs no request)")
            else:
                await ac.authenticate(targ, karg)
            out["auth"] = "ok"
        except AuthenticationError as e:
            out["auth"] = "autherr"
            out["auth_msg"] = repr(e)
        except (AssertionError, ValueError) as e:
            # (a zero / negative attempt budget is refused one way or another; what matters is that nothing gets authenticated)
            out["auth"] = "autherr" if kind == "nobudget" else "other"
            out["auth_msg"] = repr(e)
            out["auth_exc"] = e
        except BaseException as e:
            out["auth"] = "other"
            out["auth_exc"] = e
        out["during"] = [(e.kind, e.token, e.note) for e in dev.log[mark:] if e.kind not in ("connect", "client_close", "hs_reply")]
        out["after_creds"] = (ac.token, ac.key)
        out["before_creds"] = before
        dev.default_hs_action = ("genuine", {})
        mark2 = len(dev.log)
        if out["auth"] == "ok":
            await ac.refresh()
            out["online"] = ac.online
            out["data_events"] = [(e.kind, e.note, e.key_gen) for e in dev.log[mark2:] if e.kind in ("data", "undecodable")]
            out["latest_gen"] = [len(c.session_keys) - 1 for c in dev.conns][-1]
        elif prior == "expired":
            # the old session has expired and the re-handshake was rejected: the next exchange must start with a handshake
            try:
                await ac._lan.send(FRAME)
            except BaseException as e:
                out["send_exc"] = e
            out["after_kinds"] = [e.kind for e in dev.log[mark2:] if e.kind in ("hs_req", "data", "undecodable")]
        elif prior in ("fresh", "late"):
            try:
                out["send"] = await ac._lan.send(FRAME)
            except AuthenticationError:
                out["send"] = "autherr"
            except BaseException as e:
                out["send"] = e
            out["after_events"] = [(e.kind, e.note) for e in dev.log[mark2:] if e.kind in ("data", "undecodable")]
        ac._lan._disconnect()

    vloop.run(main, net)
    if out.get("setup_failed"):
        return ("setup/prior-auth-failed", "could not establish the prior authenticated state")
    # a 64-byte "length mutation", or an untouched body under a different header pad nibble, is the genuine 64-byte reply
    genuine = mut[0] == "genuine" or mut == ["len", 64] or (mut[0] == "lenpad" and mut[1] == 0)
    if genuine:
        if out["auth"] != "ok":
            return ("genuine/rejected", f"genuine reply rejected: {out.get('auth_msg') or out.get('auth_exc')!r}")
        if out["after_creds"] != (token.hex(), key.hex()):
            return ("genuine/creds", f"Device.token/key {out['after_creds']} != supplied")
        hs_reqs = [e for e in out["during"] if e[0] == "hs_req"]
        if len(hs_reqs) != 1 + case.get("lost_first", 0):
            # the (prompt) genuine reply to the first request was not taken: the client asked again
            return ("genuine/retransmitted", f"{len(hs_reqs)} handshake requests were seen, {1 + case.get('lost_first', 0)} expected ({case.get('lost_first', 0)} lost on the way, then a prompt genuine reply; cuts {case.get('cuts')})")
        if not out["online"]:
            return ("genuine/refresh", f"refresh after authentication failed; device saw {out['data_events']}")
        bad = [e for e in out["data_events"] if e[0] != "data" or e[2] != out["latest_gen"]]
        if bad or not out["data_events"]:
            return ("genuine/session-key", f"device could not decrypt under the agreed key: {out['data_events']}")
        return None
    # any other reply: must fail with AuthenticationError
    if out["auth"] == "ok":
        return (f"forged/accepted/{mut[0]}", f"authentication succeeded on reply mutation {mut}")
    if out["auth"] == "other":
        e = out["auth_exc"]
        return (f"forged/raises/{type(e).__name__}", f"Device.authenticate raised {e!r} on mutation {mut}")
    for kind, tok, note in out["during"]:
        if kind != "hs_req":
            return ("forged/sent-data", f"something other than a handshake request was sent during a failed authentication: {out['during']}")
        if tok != token:
            return ("forged/wrong-token", "handshake request carried a token other than the supplied one")
    if not out["during"] and mut[0] != "nobudget":
        return ("forged/no-request", "no handshake request reached the device")
    if out["after_creds"] != out["before_creds"]:
        return ("forged/creds-replaced", f"stored token/key changed from {out['before_creds']} to {out['after_creds']} by a failed authentication")
    if prior == "expired":
        if out["after_kinds"] and out["after_kinds"][0] != "hs_req":
            return ("forged/stale-session-reused", f"after a rejected re-handshake of an expired session the next exchange sent {out['after_kinds'][:3]} "
                    "without a new handshake")
    if prior in ("fresh", "late"):
        if out["send"] != "autherr":
            return ("forged/session-authenticated", f"send after failed authentication: {out['send']!r} (expected AuthenticationError); device saw {out['after_events']}")
        if out["after_events"]:
            return ("forged/data-after-failure", f"data reached the device after a failed authentication: {out['after_events']}")
    return None


def replay(ctx, case):
    return check_case(case)


def _nt(case) -> bool:
    m = case["mut"]
    if m[0] == "genuine":
        return case.get("token_form") == "hex" or case.get("key_form") == "hex"
    return m[0] in ("flip", "wrongkey", "othernonce")


def _run_one(ctx, case):
    ctx.case(hash((case["token"], case["key"], repr(case["mut"]), case.get("prior"), case.get("token_form"), case.get("key_form"), case.get("nonce"), tuple(case.get("cuts", [])), case.get("gap"), case.get("lost_first"))),
             _nt(case), cls=f"{case['mut'][0]}/{case.get('prior', 'fresh')}")
    ctx.sample(f"{case['mut'][0]}/{case.get('prior', 'fresh')}", case)
    return check_case(case)


def marker_nonce(key: bytes, want_pos=None):
    """A nonce seed (hex) for which the genuine 64-byte reply body contains the packet start marker 83 70, and where."""
    for i in range(200000):
        seed = i.to_bytes(3, "big")
        nonce = hashlib.sha256(seed + bytes([1])).digest()
        body = rc.v3_handshake_reply_body(key, nonce)
        pos = body.find(b"\x83\x70")
        if pos >= 0 and (want_pos is None or want_pos(pos)):
            return seed.hex(), pos
    raise RuntimeError("no nonce found")


def run(ctx) -> None:
    # genuine replies that contain the start marker inside (in the encrypted nonce or in its hash), cut at every position
    g = 0
    for s_ in range(2 if ctx.quick else 6):
        tok, key = _creds(50 + s_)
        seed, pos = marker_nonce(key, (lambda p: p < 32) if s_ % 2 == 0 else (lambda p: p >= 32))
        for cut in range(1, 8 + 64):
            for two in (None, 8 + pos, 8 + pos + 2, 8 + 63):
                g += 1
                if ctx.mine(g) and (two is None or two > cut):
                    case = {"token": tok.hex(), "key": key.hex(), "nonce": seed, "token_form": "bytes", "key_form": "bytes", "prior": "fresh", "mut": ["genuine"],
                            "cuts": [cut] + ([two] if two else []), "gap": [0.0, 0.01, 0.3][g % 3]}
                    ctx.check(case, lambda c: _run_one(ctx, c))
    ctx.sweep("genuine replies containing the start marker x segmentations", g, True)
    # the first one or two handshake requests are lost, the next one is answered genuinely: in every prior state, both credential forms
    lf = 0
    for s_ in range(3):
        tok, key = _creds(70 + s_)
        for prior in ("fresh", "authed", "late", "expired"):
            for lost in (1, 2):
                lf += 1
                if ctx.mine(lf):
                    case = {"token": tok.hex(), "key": key.hex(), "nonce": "%02x" % (lf & 0xFF), "token_form": ["bytes", "hex"][lf % 2], "key_form": ["hex", "bytes"][lf % 2], "prior": prior,
                            "mut": ["genuine"], "lost_first": lost}
                    ctx.check(case, lambda c: _run_one(ctx, c))
    ctx.sweep("handshake requests lost before a genuine reply x prior states", lf, True)
    # slow connects x slow replies (everything inside the documented per-step timeouts: 5 s connect, 2 s per handshake attempt):
    # the genuine reply authenticates
    sc = 0
    for cd in (0.5, 2.5, 4.6, 4.9):
        for rd in (0.05, 1.0, 1.6, 1.9):
            for lost in (0, 1, 2):
                sc += 1
                if ctx.mine(sc):
                    tok, key = _creds(90 + sc % 3)
                    case = {"token": tok.hex(), "key": key.hex(), "nonce": "%02x" % sc, "token_form": "bytes", "key_form": "hex", "prior": "fresh", "mut": ["genuine"],
                            "connect_delay": cd, "reply_delay": rd, "lost_first": lost}
                    ctx.check(case, lambda c: _run_one(ctx, c))
    ctx.sweep("slow connect x slow genuine reply x lost requests", sc, True)
    # credentials given as bytes whose bytes all happen to be ASCII hex digits / printable text (they are bytes, not hex text)
    hx = 0
    for tokb, keyb in ((b"0123456789abcdef" * 4, b"c0ffee00" * 4), (b"A" * 64, b"f" * 32), (b"00" * 32, b"0" * 32), (b"deadbeef" * 8, bytes(range(0x30, 0x3A)) * 3 + b"ab")):
        for prior in ("fresh", "authed"):
            for m in (["genuine"], ["flip", 7], ["wrongkey", "random"]):
                hx += 1
                if ctx.mine(hx):
                    case = {"token": tokb.hex(), "key": keyb.hex(), "nonce": "%02x" % hx, "token_form": "bytes", "key_form": "bytes", "prior": prior, "mut": m}
                    ctx.check(case, lambda c: _run_one(ctx, c))
    ctx.sweep("bytes credentials made of ASCII hex digits x prior x mutation", hx, True)
    # hex text in every spelling bytes.fromhex() reads, mixed with bytes
    sp = 0
    for tf in ("bytes", "hex", "HEX", "hex_spaced", "hex_wrapped"):
        for kf in ("bytes", "hex", "HEX", "hex_spaced", "hex_wrapped"):
            for m in (["genuine"], ["flip", 100], ["wrongkey", 3]):
                sp += 1
                if ctx.mine(sp):
                    tok, key = _creds(60 + sp % 5)
                    ctx.check({"token": tok.hex(), "key": key.hex(), "nonce": "%02x" % sp, "token_form": tf, "key_form": kf, "prior": ["fresh", "authed"][sp % 2], "mut": m}, lambda c: _run_one(ctx, c))
    ctx.sweep("credential spellings (bytes, hex, upper-case hex, blank-separated hex, wrapped hex) x token/key x mutation", sp, True)
    # something arrives in the same segment right behind the reply
    bh = 0
    for behind in ("data", "reply2"):
        for prior in ("fresh", "authed", "expired"):
            for m in (["genuine"], ["flip", 0], ["flip", 300], ["flip", 511], ["wrongkey", "random"], ["othernonce"], ["len", 63], ["ptype", 3]):
                bh += 1
                if ctx.mine(bh):
                    tok, key = _creds(80 + bh % 4)
                    case = {"token": tok.hex(), "key": key.hex(), "nonce": "%02x" % bh, "token_form": "bytes", "key_form": "bytes", "prior": prior, "mut": m, "behind": behind}
                    ctx.check(case, lambda c: _run_one(ctx, c))
    ctx.sweep("a packet in the same segment right behind the reply x prior state x mutation", bh, True)
    n = 0
    sets = 2 if ctx.quick else 8
    for s in range(sets):
        tok, key = _creds(s)
        base = {"token": tok.hex(), "key": key.hex(), "nonce": "%02x" % s, "token_form": ["bytes", "hex"][s % 2], "key_form": ["bytes", "hex"][(s // 2) % 2],
                "prior": ["fresh", "authed"][s % 2]}
        others = [p_ for p_ in ("fresh", "authed", "late", "expired") if p_ != base["prior"]]
        muts = [["flip", b] for b in range(512)] + [["len", k] for k in (0, 1, 32, 63, 65, 96, 128)] + \
               [["ptype", t] for t in range(16) if t != 1] + [["lenpad", k, k] for k in range(1, 16)] + [["lenpad", 0, 5], ["lenpad", 3, 7], ["lenpad", 16, 0]] + [["error"], ["wrongkey", "random"], ["othernonce"], ["silence"], ["genuine"], ["nobudget", 0], ["nobudget", -1]] + \
               [["partial", k, how] for k in (0, 1, 5, 8, 40, 71) for how in ("fin", "rst", "fin_same", "rst_same")] + \
               [["wrongkey", b] for b in range(0, 256, 16 if ctx.quick else 1)]
        for m in muts:
            n += 1
            if ctx.mine(n):
                case = dict(base, mut=m)
                if n % 4 == 0:
                    case["then"] = ["fin", "rst", "fin_same", "rst_same"][(n // 4) % 4]
                ctx.check(case, lambda c: _run_one(ctx, c))
            if m[0] not in ("flip",) or m[1] % 32 == 0:
                # also in the other prior state
                n += 1
                if ctx.mine(n):
                    case = dict(base, mut=m, prior=others[n % 3])
                    ctx.check(case, lambda c: _run_one(ctx, c))
    ctx.sweep("512 bit flips + lengths + type nibbles + keys per credential set", n, True)

    hexb = lambda s_: s_.map(lambda b: b.hex())
    mut = st.one_of(st.just(["genuine"]), st.just(["genuine"]), st.tuples(st.just("flip"), st.integers(0, 511)).map(list),
                    st.tuples(st.just("len"), st.integers(0, 200).map(lambda n: n if n != 64 else 128)).map(list),
                    st.tuples(st.just("lenpad"), st.integers(1, 40), st.integers(0, 15)).map(list), st.tuples(st.just("ptype"), st.sampled_from([0, 2, 3, 4, 5, 6, 7, 8, 9, 10, 11, 12, 13, 14, 15])).map(list),
                    st.just(["error"]), st.just(["wrongkey", "random"]), st.tuples(st.just("wrongkey"), st.integers(0, 255)).map(list),
                    st.just(["othernonce"]), st.just(["silence"]), st.just(["nobudget", 0]),
                    st.tuples(st.just("partial"), st.integers(0, 71), st.sampled_from(["fin", "rst", "fin_same", "rst_same"])).map(list),
                    st.tuples(st.just("raw"), hexb(st.one_of(st.binary(max_size=90), st.binary(max_size=80).map(lambda b: b"\x83\x70" + bytes([0, len(b) - 2 if len(b) >= 2 else 0, 0x20]) + b)))).map(list))
    cases = st.fixed_dictionaries({
        "token": hexb(gens.tokens64()), "key": hexb(gens.keys32()), "nonce": hexb(st.binary(min_size=1, max_size=8)),
        "token_form": st.sampled_from(["bytes", "hex", "HEX", "hex_spaced"]), "key_form": st.sampled_from(["bytes", "hex", "hex_wrapped"]),
        "prior": st.sampled_from(["fresh", "fresh", "authed", "late", "expired"]), "mut": mut, "id": gens.device_ids(48)},
        optional={"cuts": st.lists(st.integers(1, 71), min_size=1, max_size=4, unique=True).map(sorted), "gap": st.sampled_from([0.0, 0.01, 0.5]),
                  "lost_first": st.sampled_from([0, 0, 1, 2]), "then": st.sampled_from(["fin", "rst", "fin_same", "rst_same"]), "behind": st.sampled_from(["data", "reply2"]),
                  "connect_delay": st.sampled_from([0.5, 2.5, 4.6]), "reply_delay": st.sampled_from([0.05, 1.6, 1.9])})
    ctx.hyp("generated", cases, lambda c: _run_one(ctx, c), ctx.n(2400, 128000))
