"""C15  Capability records are interpreted independently and survive paging."""
from __future__ import annotations

import random

from hypothesis import strategies as st

from .. import model_ac as M
from .. import refcodec as rc
from .. import respkinds as RK
from .. import vloop
from ..devsim import SimDevice

ID = "C15"
LEVEL = "exploration"
SHARDS = {"quick": 8, "thorough": 16}
RULE = ("ordered lists of 0..12 well-formed capability records (id in every CapabilityId member or unknown, size 0..10 with exactly "
        "that many data bytes, first value biased to the values the readers distinguish; incl. zero-size records, known ids with "
        "size >= 2, TEMPERATURES with size 1..10; plus lists in which the same id occurs two or three times with different values), trailer in {none, [flag,x], [x]}, split point k. Oracle (metamorphic): "
        "(1) raw_capabilities and every public property of CapabilitiesResponse(L) equal those of the in-order merge of the "
        "single-record responses; (2) through get_capabilities(): a client of a device serving L in one page and a client of a "
        "device serving L[:k] with the more-flag and L[k:] as additional page expose equal capability attributes, the second "
        "client sent exactly one additional-page request and the first none; optionally both devices are V3, hang up after every answer (FIN / RST, seen by the client's loop after or with the answer), or lose the first transmission of a request while the host's wall clock jumps (-5 s .. +2 h). (3) history independence: a fixed set of canonical responses parses to the same result at the end of each process's run as at its start. Non-trivial: the list contains an unknown / "
        "zero-size / odd-size-known / undersized-TEMPERATURES record followed by a known record, or 0 < k < n. Distinct by (L, k).")
ASSUMPTIONS = ["trailer shapes limited to those seen in captured responses (none, [more, x], [x])"]

import hashlib
TOKEN = hashlib.sha512(b"c15 token").digest()
KEY = hashlib.sha256(b"c15 key").digest()

KNOWN_IDS = [0x0009, 0x000A, 0x0018, 0x0030, 0x0032, 0x0033, 0x0039, 0x0040, 0x0042, 0x0043, 0x0048, 0x004B, 0x0051, 0x0058, 0x0059, 0x0067,
             0x00E3, 0x0091, 0x0093, 0x0094, 0x0098, 0x0210, 0x0212, 0x0213, 0x0214, 0x0215, 0x0216, 0x0217, 0x0219, 0x021A, 0x0221, 0x021E,
             0x021F, 0x0222, 0x0224, 0x0225, 0x022C, 0x0230, 0x0231, 0x0232, 0x0233, 0x0234]
TEMPERATURES = 0x0225


def _frame(records: list, trailer: bytes) -> bytes:
    recs = [M.cap_record(r[0], bytes.fromhex(r[1])) for r in records]
    return rc.frame_build(M.FT_QUERY, M.caps_body(recs, trailer), proto=3)


def _props(resp) -> dict:
    cls = type(resp)
    out = {}
    for name in dir(cls):
        if name.startswith("_"):
            continue
        if isinstance(getattr(cls, name, None), property) and name not in ("payload", "id"):
            out[name] = getattr(resp, name)
    return out


def check_case(case: dict):
    from msmart.device import AirConditioner as AC
    from msmart.device.AC.command import Response
    L = case["records"]
    trailer = bytes.fromhex(case.get("trailer", ""))
    whole = Response.construct(_frame(L, trailer))
    if type(whole).__name__ != "CapabilitiesResponse":
        return ("not-caps", f"constructed {type(whole).__name__}")
    expected_raw = {}
    merged = Response.construct(_frame([], b""))
    for r in L:
        single = Response.construct(_frame([r], b""))
        expected_raw.update(dict(single.raw_capabilities))
        merged.merge(single)
    if dict(whole.raw_capabilities) != expected_raw:
        missing = {k: v for k, v in expected_raw.items() if whole.raw_capabilities.get(k, "<absent>") != v}
        extra = {k: v for k, v in whole.raw_capabilities.items() if k not in expected_raw}
        return ("independence/raw", f"whole list differs from merge of singletons: missing/different {missing}, extra {extra}; records {L}")
    pw, pm = _props(whole), _props(merged)
    pw.pop("additional_capabilities", None)
    pm.pop("additional_capabilities", None)
    if pw != pm:
        diff = {k: (pw[k], pm[k]) for k in pw if pw[k] != pm[k]}
        return ("independence/properties", f"public properties differ: {diff}")
    if not case.get("paging", True):
        return None
    # paging through the device API
    k = min(case.get("k", 0), len(L))
    snaps = []
    for pages in ([(L, trailer)], [(L[:k], bytes([1, case.get("x", 0)])), (L[k:], bytes.fromhex(case.get("trailer2", "")))]):
        net = vloop.Net()
        res = {}

        async def main(loop, pages=pages):
            m = RK.model(0)
            m.cap_pages = [([M.cap_record(r[0], bytes.fromhex(r[1])) for r in recs], tr) for recs, tr in pages]
            peer = case.get("peer") or {}
            version = peer.get("version", 2)
            dev = SimDevice(loop, version=version, device_id=3, ac=m, token=TOKEN, key=KEY)
            dev.hangup = peer.get("hangup")          # the unit hangs up after every answer (FIN/RST)
            seen = {"n": 0}

            def on_data(dev_, conn, frame):
                # the first transmission of the n-th request is lost; meanwhile the host's wall clock jumps (suspend/resume)
                seen["n"] += 1
                lose = peer.get("lose") or []
                if seen["n"] in (lose if isinstance(lose, list) else [lose]):
                    if peer.get("jump"):
                        loop.call_later(0.5, lambda: setattr(loop, "wall_skew", loop.wall_skew + peer["jump"]))
                    return ("drop",)
                return None
            dev.on_data = on_data
            net.listen("10.0.0.9", 6444, dev)
            ac = AC(ip="10.0.0.9", port=6444, device_id=3)
            if version == 3:
                await ac.authenticate(TOKEN, KEY)
            await ac.get_capabilities()
            res["caps"] = {a: repr(getattr(ac, a)) for a in RK.CAP_ATTRS}
            res["requests"] = list(m.cap_requests)
            ac._lan._disconnect()

        vloop.run(main, net)
        snaps.append(res)
    one, two = snaps
    want_one = [0, 1] if (len(trailer) > 1 and trailer[-2]) else [0]
    if one["requests"] != want_one:
        return ("paging/requests-single", f"single-page device saw capability requests {one['requests']}, expected {want_one}")
    if two["requests"] != [0, 1]:
        return ("paging/requests-split", f"two-page device saw capability requests {two['requests']}, expected [0, 1]")
    if one["requests"] == [0] and one["caps"] != two["caps"]:
        diff = {a: (one["caps"][a], two["caps"][a]) for a in one["caps"] if one["caps"][a] != two["caps"][a]}
        return ("paging/attributes", f"split at {k} of {len(L)} changes capabilities: {diff}; records {L}")
    return None


ODD_LISTS = [[[TEMPERATURES, "22" * n]] for n in range(1, 6)] + [[[0x9999, "05"]], [[0x9999, "05"], [0x9999, "06"]], [[0x0212, ""]], [[0x1234, "0102"], [0x1234, "0102"]],
                                                                  [[TEMPERATURES, "2222"], [TEMPERATURES, "223c223c223c"]], [[0x0214, "0102"]], [[0x00FF, "01"]]]


def check_history(_case=None):
    """A short parsing history in this process: canonical responses, then odd ones (undersized, unknown, repeated, zero-size), then the
    canonical ones again - which must parse exactly as before."""
    from msmart.device.AC.command import Response
    before = _canon_snapshot()
    for L in ODD_LISTS + ODD_LISTS:
        try:
            Response.construct(_frame(L, b""))
        except Exception as e:
            return (f"history/raises/{type(e).__name__}", f"well-formed records {L} raised {e!r}")
    now = _canon_snapshot()
    for k in before:
        if now[k] != before[k]:
            d = {a: (before[k][0].get(a), now[k][0].get(a)) for a in set(before[k][0]) | set(now[k][0]) if before[k][0].get(a) != now[k][0].get(a)}
            return ("history/parse-changed", f"records {k} parsed differently after a history of odd records than before it (before, after): {d or 'public properties differ'}")
    return None


def replay(ctx, case):
    if "history" in case:
        return check_history(case)
    return check_case(case)


def _odd(r) -> bool:
    cid, data = r[0], bytes.fromhex(r[1])
    if cid not in KNOWN_IDS:
        return True
    if len(data) == 0:
        return True
    if cid == TEMPERATURES:
        return len(data) < 6
    return len(data) >= 2


def _nt(case) -> bool:
    L = case["records"]
    k = case.get("k", 0)
    if 0 < k < len(L):
        return True
    for i, r in enumerate(L):
        if _odd(r) and any(x[0] in KNOWN_IDS and len(x[1]) > 0 for x in L[i + 1:]):
            return True
    return False


def _run_one(ctx, case):
    import json
    nt = _nt(case)
    ctx.case(hash(json.dumps(case, sort_keys=True)), nt, cls=f"n={min(len(case['records']), 12)}")
    for r in case["records"]:
        if r[0] == TEMPERATURES and len(r[1]) // 2 < 6:
            ctx.label("has undersized TEMPERATURES")
            break
    ctx.sample("nt" if nt else "trivial", case)
    return check_case(case)


def _canon_snapshot() -> dict:
    """What a fixed set of well-formed responses parses to right now (parsing is a pure function of the frame: the answer may not
    depend on what this process has parsed before)."""
    from msmart.device.AC.command import Response
    out = {}
    canon = [[[cid, "01"]] for cid in KNOWN_IDS if cid != TEMPERATURES] + [[[TEMPERATURES, "22 3c 22 3c 22 3c".replace(" ", "")]], [[TEMPERATURES, "20403e223c2201"]],
                                                                            [[0x1234, "0102"]], [[0x0212, "01"], [TEMPERATURES, "2a3a2a3a2a3a00"], [0x0214, "01"], [0x9999, "05"], [0x0216, "01"]]]
    for L in canon:
        r = Response.construct(_frame(L, b""))
        out[repr(L)] = (dict(r.raw_capabilities), _props(r))
    return out


def run(ctx) -> None:
    holder = {}

    def take(_case):
        holder["b"] = _canon_snapshot()
        return None
    ctx.check({"history": "canonical responses at the start of the run"}, take)      # (a library exception here is a violation, not a harness error)
    baseline = holder.get("b")
    _run(ctx)
    if baseline is None:
        return
    # history independence: after everything this process has parsed (undersized, unknown, repeated and odd records included), the
    # canonical responses still parse to what they parsed to at the start
    def again(_case):
        now = _canon_snapshot()
        for k in baseline:
            if now[k] != baseline[k]:
                d = {a: (baseline[k][0].get(a), now[k][0].get(a)) for a in set(baseline[k][0]) | set(now[k][0]) if baseline[k][0].get(a) != now[k][0].get(a)}
                return ("history/parse-changed", f"records {k} parsed differently at the end of the run than at its start (first, now): {d or 'public properties differ'}")
        return None
    ctx.case(hash(("history", ctx.shard)), True, cls="history")
    ctx.check({"history": "canonical responses re-parsed after the run", "shard": ctx.shard}, again)
    ctx.check({"history": "canonical, odd, canonical"}, check_history)
    ctx.sweep("history independence of the parser: canonical responses before / after the shard's run", 1, True)


def _run(ctx) -> None:
    # deterministic part: every known id x every first value 0..255 as singleton followed by a sentinel record; sizes 0..10
    n = 0
    sentinel = [0x0212, "01"]
    for cid in KNOWN_IDS + [0x0000, 0x0001, 0x0100, 0x0300, 0xFFFF, 0x1225, 0x00FF, 0xFF00]:
        for size in range(0, 11):
            vals = [0] if size == 0 else (range(256) if (size == 1 and not ctx.quick) else [0, 1, 2, 3, 4, 5, 6, 7, 9, 13, 100, 255])
            for v in vals:
                n += 1
                if not ctx.mine(n):
                    continue
                data = bytes([v] + [(v + 3 * j) & 0xFF for j in range(1, size)])[:size]
                case = {"records": [[cid, data.hex()], sentinel, [0x0214, "02"]], "trailer": ["", "0000", "00"][n % 3], "k": n % 4,
                        "paging": n % 2 == 0}
                ctx.check(case, lambda c: _run_one(ctx, c))
    ctx.sweep("every id x size 0..10 x first values, followed by known records", n, True)

    # the same id twice with different values, split at every point (a later record overrides an earlier one)
    d = 0
    for cid in (0x0048, 0x0216, 0x0214, 0x0212, 0x0210, 0x0215, 0x021F, 0x0043, 0x0042, 0x0018, 0x0219, 0x00E3, 0x0009, 0x000A, 0x0039, 0x021A, 0x0224):
        for v1 in (0, 1, 2, 3, 5, 9):
            for v2 in (0, 1, 2, 4, 7):
                if v1 == v2:
                    continue
                recs = [[0x0212, "01"], [cid, "%02x" % v1], [0x0214, "01"], [cid, "%02x" % v2], [0x0213, "01"]]
                for k in (1, 2, 3, 4):
                    d += 1
                    if ctx.mine(d) and (not ctx.quick or (d + cid) % 3 == 0 or cid in (0x0048, 0x0216)):
                        case = {"records": recs, "trailer": "", "trailer2": "", "k": k, "x": 0, "paging": True}
                        ctx.check(case, lambda c: _run_one(ctx, c))
    ctx.sweep("same id twice with different values x split points", d, not ctx.quick)

    # peers that behave like real units rather than ideal ones: hang up after every answer; lose a transmission while the host's clock jumps
    e = 0
    recs = [[0x0212, "01"], [0x0214, "01"], [0x0216, "01"], [0x021F, "01"], [0x0048, "01"], [0x0215, "01"], [0x0210, "01"]]
    for version in (2, 3):
        for hangup in (None, "fin", "rst", "fin_same", "rst_same"):
            # (lists: which transmissions, counted over the whole call, are lost - e.g. [1, 2, 4]: the first request twice, the second once;
            # every request still gets through within its own retry budget)
            for lose, jump in ((0, 0), (1, 0), (2, 0), (1, 30.0), (2, 30.0), (2, 7200.0), (2, -5.0), ([1, 2, 4], 0), ([1, 3, 4], 0), ([1, 2, 4, 5], 0), ([2, 3], 0)):
                for k in (0, 3, 7):
                    e += 1
                    if ctx.mine(e):
                        peer = {"version": version, "lose": lose, "jump": jump}
                        if hangup:
                            peer["hangup"] = hangup
                        ctx.check({"records": recs, "trailer": "", "trailer2": "", "k": k, "x": 0, "paging": True, "peer": peer}, lambda c: _run_one(ctx, c))
    ctx.sweep("peer personality: hang-up after each answer x lost transmission x wall-clock jump x split point x {V2,V3}", e, True)

    hexb = lambda s_: s_.map(lambda b: b.hex())
    first = st.one_of(st.integers(0, 13), st.just(100), st.integers(0, 255))
    data = st.integers(0, 10).flatmap(lambda size: st.tuples(first, st.binary(min_size=max(0, size - 1), max_size=max(0, size - 1))).map(
        lambda t, size=size: (bytes([t[0]]) + t[1])[:size]))
    cid = st.one_of(st.sampled_from(KNOWN_IDS), st.sampled_from(KNOWN_IDS), st.just(TEMPERATURES), st.integers(0, 0xFFFF), st.sampled_from([0x0000, 0x0100, 0x00FF, 0xFFFF]))
    record = st.tuples(cid, hexb(data)).map(list)
    cases = st.fixed_dictionaries({
        "records": st.lists(record, min_size=0, max_size=12),
        "trailer": st.sampled_from(["", "", "0000", "0001", "00", "01"]),
        "trailer2": st.sampled_from(["", "0000", "00"]),
        "k": st.integers(0, 12), "x": st.integers(0, 255), "paging": st.booleans()},
        optional={"peer": st.fixed_dictionaries({"version": st.sampled_from([2, 3]), "lose": st.sampled_from([0, 0, 1, 2, [1, 2, 4], [1, 3, 4], [1, 2, 4, 5], [2, 3]]), "jump": st.sampled_from([0, 0, 30.0, 7200.0, -5.0])},
                                                optional={"hangup": st.sampled_from(["fin", "rst", "fin_same", "rst_same"])})})
    ctx.hyp("lists", cases, lambda c: _run_one(ctx, c), ctx.n(3000, 480000))
    # the same capability id repeated with different values (a later record overrides an earlier one, also across the split)
    dup_ids = [0x0048, 0x0216, 0x0214, 0x0212, 0x0225, 0x0210, 0x0215, 0x021F, 0x0043, 0x0042, 0x0018, 0x0219, 0x00E3, 0x0009]
    one = st.sampled_from(dup_ids).flatmap(lambda i: st.lists(
        (st.binary(min_size=6, max_size=7) if i == 0x0225 else st.one_of(st.integers(0, 13), st.integers(0, 255)).map(lambda v: bytes([v]))).map(lambda d, i=i: [i, d.hex()]),
        min_size=2, max_size=3))
    dup_lists = st.lists(one, min_size=1, max_size=3).flatmap(lambda groups: st.permutations([r for g in groups for r in g]))
    dup_cases = st.fixed_dictionaries({"records": dup_lists.map(list), "trailer": st.sampled_from(["", "0000", "00"]), "trailer2": st.sampled_from(["", "00"]),
                                       "k": st.integers(0, 9), "x": st.integers(0, 255), "paging": st.just(True)})
    ctx.hyp("repeated ids", dup_cases, lambda c: _run_one(ctx, c), ctx.n(1600, 160000))
