"""C11  State responses decode to exactly the reported state."""
from __future__ import annotations

import hashlib
import random

from hypothesis import strategies as st

from .. import acutil, gens, vloop
from .. import refcodec as rc
from ..devsim import SimDevice
from ..model_ac import ACState, ModelAC, decode_state_body, encode_state_body

ID = "C11"
LEVEL = "exploration"
SHARDS = {"quick": 8, "thorough": 16}
RULE = ("a raw 0xC0 body (assembled by the model's vendor-layout encoder plus raw byte overrides) is reported to a fresh "
        "AirConditioner, either through refresh() against the model device or through Response.construct + _update_state, or twice to the same client with local attribute changes in between, or after a different report to the same client (optionally with 1..3 late duplicates of that earlier report waiting unread on the idle connection), or through a refresh whose slow connect lets an apply() of the same client overtake it, or through the refresh that toggle_display() performs against a unit that does not act on the display command, or through a multi-query refresh (energy polling on) in which an unsolicited notification overtakes the state reply or the optional energy query goes unanswered or cannot be delivered (the unit hung up after the state answer and a new connection hangs); the "
        "public attributes must equal the vendor-layout reading of the body: power, mode (members 1..6), setpoint (alternate code "
        "c!=0 => c+12 else primary+16, + half bit), fan (member or raw 0..127), swing (canonical nibbles), turbo, aux mode, eco, "
        "purifier, sleep, Fahrenheit, follow-me, filter, display ((b14>>4)&7 != 7), target humidity iff length>=20 else None, "
        "freeze iff length>=22 else None; sensor temperatures by the statement's predicate (None iff 0xFF, within 1 degree of "
        "(byte-50)/2, Celsius tenths exact). Exhaustive grids: 256x10 temperature x 2 sensors x 2 units; 32x32 alternate x "
        "primary setpoint codes; all 256 values of bytes 1,2,7,8,9,10,13,14,19,21 and 0..127 of byte 3; lengths 16..40; both "
        "check styles; frame types 2/3. Non-trivial: negative temperature, non-zero tenths, alternate code != 0, length < 22, "
        "additive check, or a flag byte with >= 2 bits set. Distinct by body bytes + path.")
ASSUMPTIONS = ["fan byte generated within 0..127 (bit 7 undefined in the status layout)",
               "display flag oracle is the vendor's 3-bit field (7 = off) for all 256 values of byte 14",
               "alternate setpoint codes decode linearly (code+12), DESIGN 5"]


def expected(body: bytes) -> dict:
    d = decode_state_body(body)
    e = {
        "power": d["power"], "target": d["target"], "eco": d["eco"], "turbo": d["strong_wind"] or d["tubro"], "sleep": d["sleep"],
        "fahrenheit": d["fahrenheit"], "follow_me": d["follow_me"], "purifier": d["purifier"], "filter_alert": d["filter_alert"],
        "display_on": d["display_on"], "humidity": d["humidity"], "freeze": d["freeze"],
        "aux": 2 if d["independent_ptc"] else (1 if d["ptc"] else 0),
    }
    if 1 <= d["mode"] <= 6:
        e["mode"] = d["mode"]
    if body[3] <= 127:
        e["fan"] = body[3]
    if d["swing"] in (0, 3, 0xC, 0xF):
        e["swing"] = d["swing"]
    return e, d


def check_case(case: dict):
    from msmart.device import AirConditioner as AC
    from msmart.device.AC.command import Response
    body = bytes.fromhex(case["body"])
    frame = rc.frame_build(case.get("ftype", 3), body, check=case.get("check", "crc"), proto=3)
    via = case.get("via", "decoder")
    if via == "decoder":
        ac = AC(ip="10.0.0.9", port=6444, device_id=3)
        resp = Response.construct(frame)
        if type(resp).__name__ != "StateResponse":
            return ("not-state", f"constructed {type(resp).__name__}")
        ac._update_state(resp)
        got = acutil.read_attrs(ac)
    else:
        net = vloop.Net()
        res = {}

        async def main(loop):
            m = ModelAC()
            current = {"frame": frame}
            note = rc.frame_build(0x05, bytes([0xB5, 0x01, 0x12, 0x02, 0x01, 0x01]), proto=3)       # an unsolicited type-5 notification

            def hook(fr, p, outp):
                if p.body[0] == 0x41 and p.body[1] == 0x81:
                    return [current["frame"]]
                return outp
            m.response_hook = hook
            dev = SimDevice(loop, version=case.get("version", 2), device_id=3, ac=m,
                            token=hashlib.sha512(b"t").digest(), key=hashlib.sha256(b"k").digest())
            if via == "refresh_multi":
                # the refresh consists of several queries (energy polling on) and the state reply is overtaken by a
                # notification that arrives in its own segment: the reply then arrives during the next query of the same refresh
                def on_data(dev_, conn, fr_):
                    pp = rc.frame_parse(fr_)
                    if pp.body[0] == 0x41 and pp.body[1] == 0x81:
                        if case.get("energy_silent") == "gone":
                            # the unit answers the state query, hangs up, and does not accept a new connection for a while: the optional
                            # queries of the same refresh cannot be delivered
                            dev_.connect_script = ["hang"] * 4
                            return ("frames", [current["frame"]], {"then": "fin"})
                        if case.get("energy_silent"):
                            return None           # (the state query is answered normally in this variant)
                        conn.send_stream(dev_.wrap(conn, note), delay=0.02)
                        conn.send_stream(dev_.wrap(conn, current["frame"]), delay=0.06)
                        return ("drop",)
                    if case.get("energy_silent") and pp.body[0] == 0x41 and pp.body[1] == 0x21:
                        return ("drop",)          # the unit never answers the optional energy query
                    return None
                dev.on_data = on_data
            net.listen("10.0.0.9", 6444, dev)
            ac = AC(ip="10.0.0.9", port=6444, device_id=3)
            if dev.version == 3:
                await ac.authenticate(dev.token, dev.key)
            if via == "refresh_multi":
                ac.enable_energy_usage_requests = True
            if case.get("before"):
                # history: the same client saw another report first (every field different where the layout allows)
                current["frame"] = rc.frame_build(3, bytes.fromhex(case["before"]), proto=3)
                await ac.refresh()
                if case.get("stale"):
                    # ... and a late duplicate of that earlier report (the answer to a retransmission, or a pushed report) reaches the
                    # idle connection `stale` times and waits there unread; then the unit changes state
                    import asyncio
                    conn = dev.conns[-1]
                    for _ in range(case["stale"]):
                        conn.send_stream(dev.wrap(conn, current["frame"]), delay=0.01)
                    await asyncio.sleep(case.get("stale_wait", 0.5))
                current["frame"] = frame
            if via == "overtaken":
                # the poll is asked for first but its TCP connect is slow (0.5 s); meanwhile the user applies a setting on the same
                # object, which connects and completes at once.  The poll's answer is the latest report the client receives.
                import asyncio
                dev.connect_script = ["slow:0.5"]
                t_poll = asyncio.ensure_future(ac.refresh())
                await asyncio.sleep(0.1)
                ac.target_temperature = 19.0 if ac.target_temperature != 19.0 else 23.0
                await ac.apply()
                await t_poll
            elif via == "toggle":
                # the refresh happens inside toggle_display(): an earlier refresh, then the display command - which this unit does
                # not act on (switched off / no display control / delayed): what it reports afterwards is what counts
                if not case.get("before"):
                    await ac.refresh()
                await ac.toggle_display()
            else:
                await ac.refresh()
            if via == "refresh2":
                # history: the same state was already reported once, then the user changed attributes locally
                # (without applying them); the next refresh must report the device's state again
                other = {"power": not ac.power_state, "mode": 1 + (int(ac.operational_mode) % 6), "target": 17.0 if ac.target_temperature != 17.0 else 29.5,
                         "fan": 41, "swing": 0xF if int(ac.swing_mode) != 0xF else 0, "eco": not ac.eco, "turbo": not ac.turbo, "sleep": not ac.sleep,
                         "fahrenheit": not ac.fahrenheit, "freeze": not ac.freeze_protection, "follow_me": not ac.follow_me, "purifier": not ac.purifier,
                         "humidity": 77, "aux": (int(ac.aux_mode) + 1) % 3, "beep": True}
                acutil.set_attrs(ac, other)
                await ac.refresh()
            res["got"] = acutil.read_attrs(ac)
            ac._lan._disconnect()

        vloop.run(main, net)
        got = res["got"]
        if not got["online"] or not (got["supported"] or case.get("energy_silent")):
            return ("offline", f"valid state response not accepted: online={got['online']} supported={got['supported']}")
    exp, d = expected(body)
    for k, v in exp.items():
        if got[k] != v or (isinstance(v, bool) and not isinstance(got[k], bool)):
            return (f"field/{k}", f"{k}: attribute {got[k]!r}, device reported {v!r}; body={body.hex()}")
    # enum typing
    if "mode" in exp and got["mode_type"] != "OperationalMode":
        return ("type/mode", f"mode exposed as {got['mode_type']}")
    if "fan" in exp:
        member = exp["fan"] in (102, 100, 80, 60, 40, 20)
        if member != (got["fan_type"] == "FanSpeed"):
            return ("type/fan", f"fan {exp['fan']} exposed as {got['fan_type']}")
    if not acutil.temp_ok(got["indoor"], body[11], body[15] & 0xF, d["fahrenheit"]):
        return ("temp/indoor", f"indoor {got['indoor']!r} for byte {body[11]:#x} tenths {body[15] & 0xF} fahrenheit={d['fahrenheit']}")
    if not acutil.temp_ok(got["outdoor"], body[12], body[15] >> 4, d["fahrenheit"]):
        return ("temp/outdoor", f"outdoor {got['outdoor']!r} for byte {body[12]:#x} tenths {body[15] >> 4} fahrenheit={d['fahrenheit']}")
    return None


def replay(ctx, case):
    return check_case(case)


def _nt(body: bytes, case) -> bool:
    if case.get("check") == "sum" or len(body) < 22:
        return True
    if (body[11] != 0xFF and body[11] < 50) or (body[12] != 0xFF and body[12] < 50) or body[15] != 0 or (body[13] & 0x1F):
        return True
    return any(bin(body[i]).count("1") >= 2 for i in (8, 9, 10))


def _run_one(ctx, case):
    body = bytes.fromhex(case["body"])
    ctx.case(hash((body, case.get("via", "decoder"), case.get("check", "crc"), case.get("ftype", 3), case.get("before"), case.get("energy_silent"), case.get("stale"))), _nt(body, case),
             cls=case.get("cls", "random") + "/" + case.get("via", "decoder"))
    ctx.sample(case.get("cls", "random"), case)
    return check_case(case)


def _base_state(rnd: random.Random) -> ACState:
    s = ACState()
    s.power = rnd.random() < .5
    s.mode = rnd.randint(1, 6)
    s.target = rnd.choice(gens.SETPOINTS)
    s.fan = rnd.choice([102, 100, 80, 60, 40, 20, rnd.randint(1, 101)])
    s.swing = rnd.choice(gens.SWING_MEMBERS)
    for f in ("eco", "strong_wind", "tubro", "sleep", "fahrenheit", "freeze", "follow_me", "purifier", "ptc", "independent_ptc", "display_on", "filter_alert"):
        setattr(s, f, rnd.random() < .5)
    s.humidity = rnd.randint(0, 100)
    s.indoor_raw = rnd.randint(0, 255)
    s.outdoor_raw = rnd.randint(0, 255)
    s.indoor_tenths = rnd.randint(0, 9)
    s.outdoor_tenths = rnd.randint(0, 9)
    return s


def run(ctx) -> None:
    rnd = random.Random(ctx.seed * 104729 + 11)
    cases = []
    # temperature grids: byte x tenths x sensor x unit
    for unit in (False, True):
        for sensor in ("indoor", "outdoor"):
            for raw in range(256):
                for tenths in range(10):
                    s = _base_state(rnd)
                    s.fahrenheit = unit
                    if sensor == "indoor":
                        s.indoor_raw, s.indoor_tenths = raw, tenths
                    else:
                        s.outdoor_raw, s.outdoor_tenths = raw, tenths
                    cases.append({"cls": "temperature grid", "body": encode_state_body(s, length=24).hex()})
    # alternate x primary setpoint codes (primary = 4 bits + half bit)
    for alt in range(32):
        for prim in range(32):
            s = _base_state(rnd)
            b = bytearray(encode_state_body(s, length=24))
            b[2] = (b[2] & 0xE0) | prim
            b[13] = (b[13] & 0xE0) | alt
            cases.append({"cls": "setpoint codes", "body": bytes(b).hex()})
    # every value of each interpreted byte
    for idx in (1, 2, 3, 7, 8, 9, 10, 13, 14, 19, 21):
        for v in range(128 if idx == 3 else 256):
            s = _base_state(rnd)
            b = bytearray(encode_state_body(s, length=24))
            b[idx] = v
            cases.append({"cls": f"byte {idx}", "body": bytes(b).hex()})
    # lengths 16..40, both check styles, both frame types
    for L in range(16, 41):
        for check in ("crc", "sum"):
            for ftype in (2, 3):
                s = _base_state(rnd)
                cases.append({"cls": "length", "body": encode_state_body(s, length=L, tail=bytes(rnd.randrange(256) for _ in range(max(0, L - 22)))).hex(),
                              "check": check, "ftype": ftype})
    for i, case in enumerate(cases):
        if not ctx.mine(i):
            continue
        ctx.check(case, lambda c: _run_one(ctx, c))
        # the same body through the full stack: all of them in thorough, every 6th in quick
        if (not ctx.quick) or i % 6 == 0:
            c2 = dict(case, via="refresh" if i % 4 else "refresh2", version=2 if i % 3 else 3)
            ctx.check(c2, lambda c: _run_one(ctx, c))
    ctx.sweep("temperature / setpoint-code / per-byte / length grids", len(cases), True)
    # the same client sees two different reports one after the other (the second one decides): every interpreted byte of the
    # first report differs, incl. sensor present -> absent (0xFF), long -> short body, flags set -> clear
    full = bytes.fromhex("c001ab667f7f003c1f18ff5c68140d6e000000283c012c00")       # everything switched on, sensors present, humidity, freeze
    seq = 0
    for i, case in enumerate(cases):
        if i % 9 == 0 and case.get("check", "crc") == "crc" and case.get("ftype", 3) == 3:
            seq += 1
            if ctx.mine(seq):
                c3 = dict(case, via="refresh", version=2 if seq % 3 else 3, before=full.hex(), cls=case["cls"] + " after another report")
                if seq % 2:
                    c3["stale"] = 1 + (seq // 2) % 3
                    c3["stale_wait"] = [0.5, 3.0, 120.0][(seq // 6) % 3]
                ctx.check(c3, lambda c: _run_one(ctx, c))
                if seq % 3 == 0:
                    c6 = dict(case, via="overtaken", version=2, cls=case["cls"] + " poll overtaken by an apply")
                    ctx.check(c6, lambda c: _run_one(ctx, c))
                c5 = dict(case, via="toggle", version=2 if seq % 2 else 3, cls=case["cls"] + " via toggle_display")
                if seq % 4 == 0:
                    c5["before"] = full.hex()
                ctx.check(c5, lambda c: _run_one(ctx, c))
            if ctx.mine(seq + 1) and seq % 2 == 0:
                c4 = dict(case, via="refresh_multi", version=2 if seq % 3 else 3, cls=case["cls"] + " multi-query")
                if seq % 4 == 0:
                    c4["energy_silent"] = True       # the optional query of the same refresh goes unanswered
                elif seq % 8 == 2:
                    c4["energy_silent"] = "gone"     # ... or cannot even be delivered: the unit hung up and a new connection hangs
                ctx.check(c4, lambda c: _run_one(ctx, c))
    ctx.sweep("second report on the same client / multi-query refresh with an overtaken state reply", seq, True)

    def mk(state, length, overrides, check, ftype, via, version):
        s = gens.to_acstate(state)
        body = encode_state_body(s, length=length, overrides=overrides)
        return {"cls": "random", "body": body.hex(), "check": check, "ftype": ftype, "via": via, "version": version}

    overrides = st.dictionaries(st.sampled_from([1, 2, 4, 5, 6, 7, 8, 9, 10, 13, 14, 15, 16, 17, 18, 19, 20, 21, 22, 23]), st.integers(0, 255), max_size=6) \
        .map(lambda d: {k: (v if k != 15 else ((v & 0xF) % 10) | (((v >> 4) % 10) << 4)) for k, v in d.items()})
    FULL = "c001ab667f7f003c1f18ff5c68140d6e000000283c012c00"
    rc_cases = st.builds(mk, gens.device_states(), st.integers(16, 40), overrides, st.sampled_from(["crc", "sum"]), st.sampled_from([2, 3]),
                         st.sampled_from(["decoder", "refresh", "refresh2", "refresh_multi", "toggle", "refresh"]), st.sampled_from([2, 3]))
    rc_cases = st.tuples(rc_cases, st.sampled_from([0, 0, 1, 2, 3]), st.sampled_from([0.5, 3.0, 120.0])).map(
        lambda t: dict(t[0], before=FULL, stale=t[1], stale_wait=t[2]) if (t[1] and t[0]["via"] == "refresh") else t[0])
    ctx.hyp("random", rc_cases, lambda c: _run_one(ctx, c), ctx.n(3000, 320000))
