"""C17  Discovery reports each replying device with exactly its advertised identity."""
from __future__ import annotations

from hypothesis import strategies as st

from .. import discsim, gens, harness, vloop
from .. import refcodec as rc

ID = "C17"
LEVEL = "exploration"
SHARDS = {"quick": 8, "thorough": 16}
RULE = ("(optionally with the interface argument: the simulated socket refuses to send to 255.255.255.255 without SO_BROADCAST, as a kernel does; in every process two runs with seven auto-connected hosts, each on an event loop of its own) 1..3 hosts on a simulated UDP network, each with source IPv4 address, 48-bit id (byte-boundary bias), port 1..65535, "
        "32-char serial, name net_<tt>_<suffix> with tt = any byte in lower or upper hex, reported IP equal to or different from "
        "the source, 0..80 trailing body bytes, reply version 2 or 3, listening on 6445 or 20086, replying from either port after "
        "a delay below the timeout, optionally next to up to two responders whose replies are malformed (every class of C18's catalogue; what happens to those is C18's business) (default 5 s; also 0.5..9 s, in particular with auto-connected hosts whose TCP side hangs, refuses or is unreachable); replies built by the independent reply builder (anchored to captured replies). Hosts answer "
        "only a datagram that arrives on their port, carries a valid signature, decrypts and equals the well-known probe. "
        "Targets: limited broadcast, a directed (subnet) broadcast, a literal address or a host name. With auto_connect (V2 hosts only) the host's TCP port answers, refuses, is unreachable or hangs. Oracle: Discover.discover / discover_single return exactly one object per host with ip == source "
        "address and port, id, sn, name, type, version as encoded; AirConditioner iff tt == 0xAC else Device. All 256 type bytes "
        "x both versions exhaustively. Non-trivial: id >= 2^32 or port != 6444 or tt != ac or reported IP != source "
        "or V3. Distinct by host tuple.")
ASSUMPTIONS = ["body layout: reversed IPv4, 4-byte LE port, 32-byte serial, name length, name, trailing bytes (from captures)"]


def check_case(case: dict):
    from msmart.base_device import Device
    from msmart.device import AirConditioner as AC
    from msmart.discover import Discover
    hosts = case["hosts"]
    net = vloop.Net()
    res = {}

    async def main(loop):
        harness.reset_library_globals()
        target = case.get("target")          # None (limited broadcast), "directed" (subnet broadcast) or "name" (a host name)
        routes = {}
        if target == "directed":
            routes["10.255.255.255"] = [h["ip"] for h in hosts]
        elif target == "name":
            routes["ac-livingroom.lan"] = [hosts[0]["ip"]]
        # other responders on the network whose replies are not well-formed (C18 decides what happens to *them*; here
        # they must not keep a well-formed responder from being reported)
        bad = [dict(ip=f"240.0.9.{i + 1}", listen_port=[6445, 20086][i % 2],
                    replies=[(b.get("delay", 0.02), 6445, discsim.bad_reply(b["kind"], b["arg"], f"240.0.9.{i + 1}"))]) for i, b in enumerate(case.get("bad", []))]
        if target == "directed":
            routes["10.255.255.255"] += [b["ip"] for b in bad]
        world = discsim.UdpWorld(net, [dict(ip=h["ip"], listen_port=h["listen_port"],
                                            replies=[(h["delay"], h["src_port"], discsim.good_reply(h))]) for h in hosts] + bad, routes)
        if case.get("send_error"):
            # sending to one of the two probe ports fails locally; hosts listening on the other port still get the probe and answer
            world.send_error_ports = {case["send_error"]}
        auto = bool(case.get("auto_connect")) and all(h["version"] == 2 for h in hosts)
        if auto:
            # V2 hosts: reachable over TCP (a model device answers), or refusing / unreachable / hanging
            from ..devsim import SimDevice
            from ..model_ac import ModelAC
            for h in hosts:
                tcp = h.get("tcp", "ok")
                dev = SimDevice(loop, version=2, device_id=h["id"], ac=ModelAC())
                if tcp != "ok":
                    dev.connect_script = [tcp] * 8
                net.listen(h["ip"], h["port"], dev)
        res["auto"] = auto
        # optionally the probe is bound to a network interface (the socket layer enforces what a kernel enforces: no broadcast
        # without SO_BROADCAST)
        ikw = {"interface": case["interface"]} if case.get("interface") else {}
        try:
            if case.get("single") or target == "name":
                d = await Discover.discover_single("ac-livingroom.lan" if target == "name" else hosts[0]["ip"], auto_connect=auto, timeout=case.get("timeout", 5), **ikw)
                res["devices"] = [d] if d is not None else []
            elif target == "directed":
                res["devices"] = await Discover.discover(target="10.255.255.255", auto_connect=auto, timeout=case.get("timeout", 5), **ikw)
            else:
                res["devices"] = await Discover.discover(auto_connect=auto, timeout=case.get("timeout", 5), **ikw)
        except Exception as e:
            res["exc"] = e
        res["bad_probes"] = world.bad_probes
        res["probes"] = len(world.probes_seen)
        res["tcp"] = [a for a in net.tcp_attempts if not str(a[1]).startswith("240.0.9.")]      # (V1/XML neighbours are queried over TCP by design)

    vloop.run(main, net)
    if "exc" in res:
        return (f"raises/{type(res['exc']).__name__}", f"discover raised {res['exc']!r}")
    devs = [d for d in res["devices"] if not d.ip.startswith("240.0.9.")]
    expected_hosts = hosts[:1] if (case.get("single") or case.get("target") == "name") else hosts
    expected_hosts = [h for h in expected_hosts if h["listen_port"] != case.get("send_error")]
    by_ip = {}
    for d in devs:
        by_ip.setdefault(d.ip, []).append(d)
    for h in expected_hosts:
        got = by_ip.get(h["ip"], [])
        if len(got) != 1:
            return ("missing" if not got else "duplicate", f"host {h['ip']} (listening on {h['listen_port']}, version {h['version']}) reported {len(got)} times; "
                    f"{res['probes']} probes sent, {res['bad_probes']} of them not the well-known probe")
        d = got[0]
        name = discsim.host_name(h["tt"], h["suffix"], h.get("upper", False))
        want = {"port": h["port"], "id": h["id"], "sn": h["sn"], "name": name, "type": h["tt"], "version": h["version"]}
        have = {"port": d.port, "id": d.id, "sn": d.sn, "name": d.name, "type": int(d.type), "version": d.version}
        for k in want:
            if want[k] != have[k]:
                return (f"identity/{k}", f"host {h['ip']}: {k} reported {have[k]!r}, advertised {want[k]!r}")
        if (type(d) is AC) != (h["tt"] == 0xAC):
            return ("class", f"type byte {h['tt']:#x} instantiated as {type(d).__name__}")
        if h["tt"] != 0xAC and type(d) is not Device:
            return ("class", f"type byte {h['tt']:#x} instantiated as {type(d).__name__}")
    if len(devs) != len(expected_hosts):
        return ("extra", f"{len(devs)} devices reported for {len(expected_hosts)} hosts")
    if res["tcp"] and not res["auto"]:
        return ("connects", f"auto_connect=False but TCP connections were attempted: {res['tcp']}")
    if res["auto"]:
        for h in expected_hosts:
            d = by_ip[h["ip"]][0]
            if h["tt"] == 0xAC and (h.get("tcp", "ok") == "ok") != bool(d.online):
                return ("auto-connect/online", f"host {h['ip']} (tcp {h.get('tcp', 'ok')}) reported online={d.online}")
    return None


def replay(ctx, case):
    return check_case(case)


def _nt(h) -> bool:
    return h["id"] >= 2 ** 32 or h["port"] != 6444 or h["tt"] != 0xAC or h.get("reported_ip", h["ip"]) != h["ip"] or h["version"] == 3


def _run_one(ctx, case):
    import json
    ctx.case(hash(json.dumps(case, sort_keys=True)), any(_nt(h) for h in case["hosts"]), cls=f"hosts={len(case['hosts'])}" + ("/single" if case.get("single") else ""))
    for h in case["hosts"]:
        ctx.label(f"version {h['version']}")
    ctx.sample(f"hosts={len(case['hosts'])}", case)
    return check_case(case)


def host_strategy(ip_last: int):
    alnum = st.one_of(st.text(alphabet="ABCDEFGHIJKLMNOPQRSTUVWXYZabcdefghijklmnopqrstuvwxyz0123456789", min_size=1, max_size=8),
                      st.text(alphabet="ABCDEF0123456789_-. ", min_size=1, max_size=8))      # the part after the type may contain anything
    sn = st.text(alphabet="ABCDEFGHIJKLMNOPQRSTUVWXYZ0123456789abcdefghijklmnopqrstuvwxyz !#$%&()*+,-./:;<=>?@[]^_{|}~", min_size=32, max_size=32)
    ip = st.tuples(st.integers(1, 223), st.integers(0, 255), st.integers(0, 255)).map(lambda t: f"{t[0]}.{t[1]}.{t[2]}.{ip_last}")
    return st.fixed_dictionaries({
        "ip": ip, "id": gens.device_ids(48), "port": st.one_of(st.just(6444), st.integers(1, 65535), st.sampled_from([1, 255, 256, 65535])),
        "sn": sn, "tt": st.one_of(st.just(0xAC), st.integers(0, 255)), "suffix": alnum, "upper": st.booleans(),
        "version": st.sampled_from([2, 3]), "listen_port": st.sampled_from([6445, 20086]), "src_port": st.sampled_from([6445, 20086]),
        "delay": st.sampled_from([0.001, 0.05, 1.0, 4.9]), "extra": st.binary(max_size=80).map(lambda b: b.hex()),
    }, optional={"tcp": st.sampled_from(["ok", "ok", "refuse", "unreachable", "hang"]), "reported_ip": st.tuples(st.integers(0, 255), st.integers(0, 255), st.integers(0, 255), st.integers(0, 255)).map(lambda t: ".".join(map(str, t)))})


def run(ctx) -> None:
    n = 0
    # every type byte x both versions x hex case
    for tt in range(256):
        for version in (2, 3):
            n += 1
            if not ctx.mine(n):
                continue
            h = {"ip": f"10.1.{tt}.{version}", "id": (tt << 40) | 0x0102030405, "port": 6444 + tt, "sn": f"{tt:032d}", "tt": tt, "suffix": "F7B4",
                 "upper": bool(tt & 1), "version": version, "listen_port": [6445, 20086][tt % 2], "src_port": [6445, 20086][(tt // 2) % 2],
                 "delay": 0.05, "extra": bytes(20).hex()}
            case = {"hosts": [h], "single": tt % 5 == 0, "target": [None, "directed", "name"][tt % 3] if tt % 5 else None}
            ctx.check(case, lambda c: _run_one(ctx, c))
    ctx.sweep("all 256 type bytes x both versions", n, True)
    # name suffixes with separators and other punctuation (the type is the second '_'-separated field, the rest is free text)
    u = 0
    for suffix in ("F7_B5", "A1C4_2", "F7B6_", "_F7B6", "a_b_c_d", "F7-B4", "F7.B4", "F7 B4", "__", "0"):
        for version in (2, 3):
            for tt in (0xAC, 0xA1):
                u += 1
                if ctx.mine(u):
                    h = {"ip": f"10.4.{u}.1", "id": 0x0C0D0E000000 + u, "port": 6444, "sn": f"{u:032d}", "tt": tt, "suffix": suffix, "upper": bool(u & 1), "version": version,
                         "listen_port": 6445, "src_port": 6445, "delay": 0.05, "extra": ""}
                    ctx.check({"hosts": [h], "single": u % 3 == 0}, lambda c: _run_one(ctx, c))
    ctx.sweep("name suffixes containing separators", u, True)
    # the OS refuses to send to one of the two probe ports: the hosts reached through the other port are still reported
    se = 0
    for bad_port in (20086, 6445):
        good_port = 6445 if bad_port == 20086 else 20086
        for version in (2, 3):
            for delay in (0.01, 0.5, 4.0):
                for target in (None, "directed"):
                    se += 1
                    if ctx.mine(se):
                        hs = [{"ip": f"10.5.{se}.{i + 1}", "id": 0x0D0E0F000000 + 8 * se + i, "port": 6444, "sn": f"{se:030d}{i:02d}", "tt": 0xAC, "suffix": "F7B4", "upper": False,
                               "version": version, "listen_port": good_port, "src_port": good_port, "delay": delay * (i + 1) / 2, "extra": ""} for i in range(2)]
                        ctx.check({"hosts": hs, "target": target, "send_error": bad_port}, lambda c: _run_one(ctx, c))
    ctx.sweep("send error on one probe port x version x reply delay x target", se, True)
    # the timeout argument x hosts whose TCP side is slow / absent (every host answers the probe within a tenth of the timeout)
    k = 0
    for timeout in (0.5, 1, 2, 5, 9):
        for tcps in (("hang",), ("unreachable",), ("refuse",), ("ok", "hang"), ("hang", "ok", "unreachable"), ("ok",)):
            for target in (None, "directed"):
                k += 1
                if not ctx.mine(k):
                    continue
                hosts = [{"ip": f"10.2.{k % 200}.{i + 1}", "id": 0x010203040500 + 16 * k + i, "port": 6444, "sn": f"{k:030d}{i:02d}", "tt": 0xAC, "suffix": "F7B4", "upper": False,
                          "version": 2, "listen_port": 6445, "src_port": 6445, "delay": round(timeout * 0.02 * (i + 1), 4), "extra": "", "tcp": t} for i, t in enumerate(tcps)]
                case = {"hosts": hosts, "target": target, "auto_connect": True, "timeout": timeout}
                ctx.check(case, lambda c: _run_one(ctx, c))
    ctx.sweep("timeout argument x TCP behaviour of auto-connected hosts", k, True)

    # the interface argument x target (limited broadcast, subnet broadcast, one host by address, one host by name)
    it = 0
    for iface in ("eth0", "wlan0", "br-lan.10"):
        for target, single in ((None, False), ("directed", False), (None, True), ("name", False)):
            for version in (2, 3):
                it += 1
                if ctx.mine(it):
                    hs = [{"ip": f"10.6.{it}.{i + 1}", "id": 0x0E0F10000000 + 8 * it + i, "port": 6444, "sn": f"{it:030d}{i:02d}", "tt": 0xAC, "suffix": "F7B4", "upper": False,
                           "version": version, "listen_port": [6445, 20086][i], "src_port": 6445, "delay": 0.05 * (i + 1), "extra": ""} for i in range(2)]
                    ctx.check({"hosts": hs, "target": target, "single": single, "interface": iface}, lambda c: _run_one(ctx, c))
    ctx.sweep("interface argument x target x version", it, True)
    # many air conditioners at once, auto-connected, in every process twice (each case runs on an event loop of its own: a second
    # asyncio.run() in the same process): six hosts whose connects overlap
    for rep in range(2):
        hs = [{"ip": f"10.7.{rep}.{i + 1}", "id": 0x0F1011000000 + 16 * rep + i, "port": 6444, "sn": f"{rep:030d}{i:02d}", "tt": 0xAC if i != 4 else 0xA1, "suffix": "F7B4", "upper": False,
               "version": 2, "listen_port": 6445, "src_port": 6445, "delay": 0.01 + 0.001 * i, "extra": "", "tcp": ["hang", "hang", "ok", "hang", "hang", "hang", "ok"][i] if rep == 0 else ("ok" if i % 3 else "hang")} for i in range(7)]
        ctx.check({"hosts": hs, "auto_connect": True, "rep": rep + 10 * ctx.shard}, lambda c: _run_one(ctx, c))
    ctx.sweep("seven hosts auto-connected at once, twice per process", 2, True)

    from . import c18

    # every class of malformed neighbour next to two well-formed hosts
    b = 0
    for kind in discsim.BAD_KINDS:
        for arg in c18._args_for(kind, lambda n: bytes((i * 11 + 3) & 0xFF for i in range(n))):
            b += 1
            if not ctx.mine(b):
                continue
            hosts = [{"ip": f"10.3.{b % 200}.{i + 1}", "id": 0x0A0B0C000000 + 16 * b + i, "port": 6444, "sn": f"{b:030d}{i:02d}", "tt": 0xAC, "suffix": "F7B4", "upper": False,
                      "version": 2 + i, "listen_port": 6445, "src_port": 6445, "delay": [0.01, 0.05][i], "extra": ""} for i in range(2)]
            case = {"hosts": hosts, "target": [None, "directed"][b % 2], "bad": [{"kind": kind, "arg": arg, "delay": [0.005, 0.03, 0.2][b % 3]}]}
            ctx.check(case, lambda c: _run_one(ctx, c))
    ctx.sweep("every malformed-neighbour class value next to two well-formed hosts", b, True)

    def with_mode(c):
        def fin(t):
            out = dict(c, target=t[0], auto_connect=t[1])
            if t[2] is not None and all(h["delay"] < t[2] * 0.9 for h in c["hosts"]):
                out["timeout"] = t[2]
            return out
        bads = st.lists(st.sampled_from(discsim.BAD_KINDS).flatmap(lambda k: st.sampled_from(c18._args_for(k, lambda n: bytes(range(7, 7 + n)) if n < 200 else bytes(n))).map(
            lambda a: {"kind": k, "arg": a})), max_size=2)
        return st.tuples(st.sampled_from([None, None, "directed", "name"]), st.booleans(), st.sampled_from([None, None, 0.5, 1.5, 2, 8]), bads, st.sampled_from([None, None, None, 20086, 6445])).map(
            lambda t: dict(dict(fin(t), bad=t[3]) if (t[3] and t[0] != "name" and not c.get("single")) else fin(t), **({"send_error": t[4]} if t[4] else {}))).flatmap(
            lambda c2: st.sampled_from([None, None, "eth0", "wlan0"]).map(lambda i: dict(c2, interface=i) if i else c2))
    cases = st.one_of(
        st.tuples(host_strategy(1)).map(lambda t: {"hosts": list(t)}),
        st.tuples(host_strategy(1), st.booleans()).map(lambda t: {"hosts": [t[0]], "single": t[1]}),
        st.tuples(host_strategy(1), host_strategy(2)).map(lambda t: {"hosts": list(t)}),
        st.tuples(host_strategy(1), host_strategy(2), host_strategy(3)).map(lambda t: {"hosts": list(t)})).flatmap(with_mode)
    ctx.hyp("hosts", cases, lambda c: _run_one(ctx, c), ctx.n(3000, 200000))
