"""C02  V2 packet codec interoperates: every frame and device id round-trips."""
from __future__ import annotations

from hypothesis import strategies as st

from .. import gens, vloop
from .. import refcodec as rc
from ..devsim import SimDevice
from ..model_ac import ModelAC

ID = "C02"
LEVEL = "exploration"
SHARDS = {"quick": 8, "thorough": 16}
RULE = ("cases: (a) enc: msmart _Packet.encode(id, frame) decoded by the independent V2 decoder - on this host and as the same source behaves on a big-endian host (private copy of msmart/lan.py with a struct module whose native order is big-endian); (b) dec: packets built by "
        "the independent encoder (varying message id, timestamp, magic, reserved bytes) decoded by _Packet.decode, handed over as bytes and as bytearray (send: the transport may deliver bytearray); (c) send: "
        "LAN.send on a V2 connection against the model device, optionally through the public Device object, with the device stamping a different id on its replies, with further exchanges on the same object, with the first transmissions lost (retransmissions must decode too) and after another LAN object with a different id sent the same frame; (e) frames that are themselves packets (nested packet, discovery probe, 5A5A + own length) through enc and send; (d) long: 70 000 (quick) / 300 000 (thorough) packets encoded consecutively in one process, each decoded by the independent decoder. Sweep of all frame lengths 0..255 x boundary ids, plus "
        "Hypothesis-generated frames/ids/clock values, with the process's monotonic clock up to years past import time. Non-trivial: len(frame)>=1 and (len%16 in {0,15} or id>=2^32 or "
        "frame contains 5A5A). Distinct by (kind, frame, id).")
ASSUMPTIONS = ["AES block primitive, MD5 shared with the code under test (trusted base)",
               "V2 request message type is 0x0111 and magic 0x2000 as documented in msmart/lan.py"]

SWEEP_IDS_QUICK = [0, 0x0123456789AB]
SWEEP_IDS_THOROUGH = [0, 1, 0xFF, 0x100, 0xFFFF, 0x10000, 0xFFFFFF, 0x1000000, 0xFFFFFFFF, 0x100000000, 0xFFFFFFFFFF,
                      0x10000000000, 0xFFFFFFFFFFFF, 0x1000000000000, 0xFFFFFFFFFFFFFF, 0x100000000000000,
                      0xFFFFFFFFFFFFFFFF, 0xFFFFFFFFFFFFFFFE, 0x8000000000000000, 0x0123456789ABCDEF, 0x5A5A5A5A5A5A5A5A]


_BE_LAN = None


def _big_endian_lan():
    """msmart/lan.py of the tree under test, executed once more as a private module whose `struct` treats native byte order
    (formats starting with '=', '@' or no prefix) as big-endian: what the same code does on a big-endian host."""
    global _BE_LAN
    if _BE_LAN is not None:
        return _BE_LAN
    import importlib.util
    import os
    import struct as real
    import sys
    import types
    import msmart

    def fix(fmt):
        if isinstance(fmt, bytes):
            fmt = fmt.decode()
        if fmt[:1] in "<>!":
            return fmt
        return ">" + fmt[1:] if fmt[:1] in "=@" else ">" + fmt

    shim = types.ModuleType("struct")
    shim.error = real.error
    shim.pack = lambda fmt, *a: real.pack(fix(fmt), *a)
    shim.unpack = lambda fmt, b: real.unpack(fix(fmt), b)
    shim.pack_into = lambda fmt, buf, off, *a: real.pack_into(fix(fmt), buf, off, *a)
    shim.unpack_from = lambda fmt, buf, offset=0: real.unpack_from(fix(fmt), buf, offset)
    shim.iter_unpack = lambda fmt, b: real.iter_unpack(fix(fmt), b)
    shim.calcsize = lambda fmt: real.calcsize(fix(fmt))
    shim.Struct = lambda fmt: real.Struct(fix(fmt))
    spec = importlib.util.spec_from_file_location("msmart._vf_lan_big_endian", os.path.join(os.path.dirname(msmart.__file__), "lan.py"))
    mod = importlib.util.module_from_spec(spec)
    saved = sys.modules["struct"]
    sys.modules["struct"] = shim
    try:
        spec.loader.exec_module(mod)
    finally:
        sys.modules["struct"] = saved
    mod.datetime = vloop.VDatetime
    _BE_LAN = mod
    return mod


def _nontrivial(frame: bytes, dev_id: int) -> bool:
    return len(frame) >= 1 and (len(frame) % 16 in (0, 15) or dev_id >= 2 ** 32 or b"\x5a\x5a" in frame)


def check_case(case: dict):
    from msmart.lan import LAN, _Packet
    kind = case["kind"]
    frame = bytes.fromhex(case["frame"])
    dev_id = case["id"]
    if kind == "enc":
        vloop.set_fixed_clock(case.get("ts", 0.0))
        import time as _time
        real_mono, real_time = _time.monotonic, _time.time
        up = case.get("uptime_days", 0) * 86400.0
        if up:
            # the process has been running for a long time (monotonic clock and time.time far from their values at import)
            _time.monotonic = lambda: real_mono() + up
            _time.time = lambda: real_time() + up
        enc = _Packet.encode
        if case.get("host") == "big-endian":
            # the same source on a big-endian host (MIPS router, s390x): a private copy of msmart.lan is loaded with a struct
            # module whose native byte order is big-endian (explicit <, >, ! formats are untouched)
            enc = _big_endian_lan()._Packet.encode
        try:
            pkt = enc(dev_id, frame)
        except Exception as e:
            return (f"enc/raises/{type(e).__name__}", f"_Packet.encode raised {e!r} (process uptime {case.get('uptime_days', 0)} days, host {case.get('host', 'native')})")
        finally:
            vloop.CURRENT = None
            _time.monotonic, _time.time = real_mono, real_time
        try:
            p = rc.v2_decode(pkt)
        except rc.RefError as e:
            return (f"enc/ref-rejects/{str(e).split()[0]}", f"reference decoder rejects encoded packet: {e}; packet={pkt.hex()}")
        if p.frame != frame:
            return ("enc/frame-differs", f"decoded frame {p.frame.hex()} != {frame.hex()}")
        if p.device_id != dev_id:
            return ("enc/id-differs", f"decoded id {p.device_id:#x} != {dev_id:#x}")
        if p.msg_type != b"\x01\x11":
            return ("enc/msg-type", f"message type {p.msg_type.hex()}")
        return None
    if kind == "long":
        # process history: n packets encoded one after the other in this process; every one must decode at the device
        vloop.set_fixed_clock(case.get("ts", 0.0))
        try:
            for i in range(case["n"]):
                fr = frame + bytes([i & 0xFF, (i >> 8) & 0xFF])
                try:
                    pkt = _Packet.encode(dev_id, fr)
                except Exception as e:
                    return (f"enc/raises/{type(e).__name__}", f"_Packet.encode raised {e!r} for packet number {i + 1} of this process run")
                try:
                    p = rc.v2_decode(pkt)
                except rc.RefError as e:
                    return (f"enc/ref-rejects/{str(e).split()[0]}", f"reference decoder rejects packet number {i + 1}: {e}; packet={pkt.hex()}")
                if p.frame != fr or p.device_id != dev_id:
                    return ("enc/frame-differs", f"packet number {i + 1}: decoded frame/id {p.frame.hex()}/{p.device_id:#x}")
        finally:
            vloop.CURRENT = None
        return None
    if kind == "dec":
        pkt = rc.v2_encode(dev_id, frame, timestamp=bytes.fromhex(case["tsb"]), message_id=bytes.fromhex(case["mid"]),
                           magic=bytes.fromhex(case["magic"]), reserved=bytes.fromhex(case["res"]))
        # the buffer object the transport hands over: bytes per the asyncio contract; some event loops deliver a bytearray
        for buf in (pkt, bytearray(pkt)):
            try:
                got = _Packet.decode(buf)
            except Exception as e:
                return (f"dec/raises/{type(e).__name__}", f"_Packet.decode raised {e!r} on reference packet {pkt.hex()} handed over as {type(buf).__name__}")
            if got != frame:
                return ("dec/frame-differs", f"decoded {bytes(got).hex()} != {frame.hex()} (buffer type {type(buf).__name__})")
        return None
    if kind == "send":
        # full LAN.send on a V2 connection: the model answers with `reply` frames (arbitrary bytes as frames)
        replies = [bytes.fromhex(x) for x in case["replies"]]
        net = vloop.Net()
        if case.get("deliver") == "bytearray":
            net.deliver_type = bytearray          # this event loop hands data_received() a bytearray
        out = {}

        async def main(loop):
            loop.wall_skew = case.get("ts", 0.0)
            dev = SimDevice(loop, version=2, device_id=case.get("reply_id", dev_id), ac=ModelAC())
            dev.default_action = ("frames", replies, {})
            # the first transmissions of the exchange may get lost: every retransmission must be a valid packet too
            dev.script = [("drop",)] * case.get("drop_first", 0)
            other_id = case.get("other_id")
            if other_id is not None:
                # another device object in the same process sent the same frame earlier
                dev2 = SimDevice(loop, version=2, device_id=other_id, ac=ModelAC())
                dev2.default_action = ("frames", [b"\xaa\x00"], {})
                net.listen("10.0.0.8", 6444, dev2)
                lan2 = LAN("10.0.0.8", 6444, other_id)
                await lan2.send(frame, retries=1)
                lan2._disconnect()
                out["tx2"] = list(dev2.transmissions)
            net.listen("10.0.0.9", 6444, dev)
            if case.get("api") == "device":
                # through the public Device object (its id is what the user configured)
                from msmart.base_device import Device
                from msmart.const import DeviceType

                class _Cmd:
                    def tobytes(self_inner):
                        return frame
                devobj = Device(ip="10.0.0.9", port=6444, device_id=dev_id, device_type=DeviceType.AIR_CONDITIONER)
                lan = devobj._lan
                if devobj.id != dev_id:
                    out["exc"] = AssertionError(f"Device.id reports {devobj.id:#x} for configured id {dev_id:#x}")
            else:
                lan = LAN("10.0.0.9", 6444, dev_id)
            try:
                if "exc" not in out:
                    out["frames"] = await lan.send(frame, retries=1 + case.get("drop_first", 0))
                    for _ in range(case.get("more_sends", 0)):
                        # later exchanges on the same object still carry the configured id
                        await lan.send(frame, retries=1)
            except Exception as e:
                out["exc"] = e
            out["tx"] = list(dev.transmissions)
            out["log"] = [(e.kind, e.note) for e in dev.log]
            lan._disconnect()

        vloop.run(main, net)
        if not replies:
            # nothing to answer with: the exchange must time out, but the request must still have arrived intact
            if not isinstance(out.get("exc"), TimeoutError):
                return ("send/no-timeout", f"expected TimeoutError, got {out.get('exc')!r} / {out.get('frames')}")
        elif "exc" in out:
            return (f"send/raises/{type(out['exc']).__name__}", f"LAN.send raised {out['exc']!r}; device log {out['log']}")
        want_tx = 1 + case.get("drop_first", 0) + (case.get("more_sends", 0) if replies else 0)
        if len(out["tx"]) != want_tx:
            return ("send/tx-count", f"device decoded {len(out['tx'])} of {want_tx} transmissions; log {out['log']}")
        for _t, _c, rx_frame, rx_id in out["tx"]:
            if rx_frame != frame:
                return ("send/frame-differs", f"device received frame {rx_frame.hex()} != {frame.hex()}")
            if rx_id != dev_id:
                return ("send/id-differs", f"device received id {rx_id:#x} != {dev_id:#x}")
        if "tx2" in out and (len(out["tx2"]) != 1 or out["tx2"][0][3] != case["other_id"] or out["tx2"][0][2] != frame):
            return ("send/other-device", f"the other device received {[(t[2].hex(), t[3]) for t in out['tx2']]}")
        if replies and [bytes(f) for f in out["frames"]] != replies:
            return ("send/replies-differ", f"send returned {[bytes(f).hex() for f in out['frames']]} != {case['replies']}")
        return None
    raise ValueError(kind)


def replay(ctx, case):
    return check_case(case)


def _run_one(ctx, case):
    frame = bytes.fromhex(case["frame"])
    nt = _nontrivial(frame, case["id"])
    ctx.case(hash((case["kind"], frame, case["id"], case.get("host"), case.get("deliver"))), nt, cls=case["kind"])
    pad = 16 - len(frame) % 16
    ctx.label(f"pad={pad}")
    ctx.sample(case["kind"] + ("/nt" if nt else ""), case)
    return check_case(case)


def run(ctx) -> None:
    ids = SWEEP_IDS_QUICK if ctx.quick else SWEEP_IDS_THOROUGH
    # exhaustive length sweep: every PKCS#7 pad and block count
    n = 0
    for L in range(256):
        for j, dev_id in enumerate(ids):
            n += 1
            if not ctx.mine(n):
                continue
            frame = bytes((L * 7 + i * 13 + j) & 0xFF for i in range(L))
            if L >= 4 and j % 2 == 1:
                frame = frame[:1] + b"\x5a\x5a" + frame[3:]
            for kind in ("enc", "dec", "enc-be"):
                case = {"kind": kind.split("-")[0], "frame": frame.hex(), "id": dev_id, "ts": 86400.0 * (L + 1) * 9.37 + j, "uptime_days": [0, 50, 400, 4000][L % 4],
                        "host": "big-endian" if kind == "enc-be" else "native",
                        "tsb": bytes([L & 0xFF, j, 3, 4, 5, 6, 24, 20]).hex(), "mid": bytes([j, L & 0xFF, 0, 1]).hex(),
                        "magic": ["2000", "2080", "7a80", "0000"][(L + j) % 4], "res": bytes([(L + k) & 0xFF for k in range(12)]).hex()}
                ctx.check(case, lambda c: _run_one(ctx, c))
    ctx.sweep("frame length 0..255 x ids x {enc,dec}", n * 2, True)

    # frames that themselves look like packets (a packet nested in a packet, the discovery probe, 5A5A + own length at 4..5)
    k = 0
    inner_frames = [b"", b"\xaa", bytes(range(20)), bytes(33), bytes(range(100, 180))]
    packetlike = [rc.v2_encode(0x1234 + i, f) for i, f in enumerate(inner_frames)] + [rc.DISCOVERY_PROBE]
    for L in (6, 8, 16, 40, 41, 72, 100, 255):
        b = bytearray(bytes((7 * i + L) & 0xFF for i in range(L)))
        b[0:2] = b"\x5a\x5a"
        b[4:6] = L.to_bytes(2, "little")
        packetlike.append(bytes(b))
        b[2:4] = b"\x01\x11"
        packetlike.append(bytes(b))
    for fr in packetlike:
        if len(fr) > 255:
            continue
        for dev_id in (1, 0x0000123456789ABC):
            for kind in ("enc", "send"):
                k += 1
                if ctx.mine(k):
                    case = {"kind": kind, "frame": fr.hex(), "id": dev_id, "ts": 5.0e6}
                    if kind == "send":
                        case["replies"] = [fr.hex()]
                        if k % 4 == 0:
                            case["deliver"] = "bytearray"
                    ctx.check(case, lambda c: _run_one(ctx, c))
    ctx.sweep("frames that look like packets x ids x {enc, send}", k, True)

    # several exchanges on one object while the unit stamps its own id on its replies: every request carries the configured id
    # (0 - what the CLI uses when --id is omitted - and byte-boundary values included)
    z = 0
    for dev_id in (0, 1, 0xFF, 0x100, 0xFFFFFFFFFFFF, 0x1000000000000, 0xFFFFFFFFFFFFFFFF):
        for reply_id in (0, 1, 0x0000A1B2C3D4E5F6, 0xFFFFFFFFFFFFFFFF):
            if reply_id == dev_id:
                continue
            for api in ("lan", "device"):
                for drop_first in (0, 1):
                    z += 1
                    if ctx.mine(z):
                        fr = bytes((z * 5 + i) & 0xFF for i in range(10 + z % 30))
                        case = {"kind": "send", "frame": fr.hex(), "id": dev_id, "reply_id": reply_id, "replies": [fr[::-1].hex()], "more_sends": 1 + z % 2, "api": api,
                                "drop_first": drop_first, "ts": 1.0e6 + z, "deliver": ["bytes", "bytearray"][z % 2]}
                        ctx.check(case, lambda c: _run_one(ctx, c))
    ctx.sweep("configured id x id stamped on replies x api x lost first transmission, several exchanges", z, True)

    # one long run in a single process (anything counted per process or per class: 16- and 32-bit boundaries of a packet count)
    if ctx.shard == 0:
        case = {"kind": "long", "frame": "aa20ac00000000000003418100ff03ff00020000000000000000000000000301", "id": 0x0000A1B2C3D4E5F6 & 0xFFFFFFFFFFFF,
                "n": 70000 if ctx.quick else 300000, "ts": 1.0e6}
        ctx.check(case, lambda c: _run_one(ctx, c))
        ctx.sweep("packets encoded consecutively in one process", case["n"], True)

    hexb = lambda s: s.map(lambda b: b.hex())
    enc_cases = st.fixed_dictionaries({
        "kind": st.just("enc"), "frame": hexb(gens.frames_bytes(255)), "id": gens.device_ids(64),
        # 1970 .. 9999 relative to the 2024 epoch, with microseconds
        "ts": st.floats(min_value=-1.7e9, max_value=2.5e11, allow_nan=False, allow_infinity=False)},
        optional={"uptime_days": st.sampled_from([0, 1, 25, 49.8, 50, 400, 4000]), "host": st.sampled_from(["native", "big-endian"])})
    dec_cases = st.fixed_dictionaries({
        "kind": st.just("dec"), "frame": hexb(gens.frames_bytes(255)), "id": gens.device_ids(64),
        "tsb": hexb(st.binary(min_size=8, max_size=8)), "mid": hexb(st.binary(min_size=4, max_size=4)),
        "magic": st.sampled_from(["2000", "2080", "7a80", "0000", "ffff"]), "res": hexb(st.binary(min_size=12, max_size=12))})
    send_cases = st.fixed_dictionaries({
        "kind": st.just("send"), "frame": hexb(gens.frames_bytes(255)), "id": gens.device_ids(64),
        "replies": st.lists(hexb(gens.frames_bytes(120)), min_size=0, max_size=3),
        "ts": st.floats(min_value=0, max_value=1e9, allow_nan=False)}, optional={"drop_first": st.integers(0, 2), "other_id": gens.device_ids(64), "api": st.sampled_from(["lan", "device"]),
                  "reply_id": gens.device_ids(64), "more_sends": st.integers(0, 2), "deliver": st.sampled_from(["bytes", "bytearray"])}).map(
        lambda c: c if c["replies"] else {k: v for k, v in c.items() if k != "more_sends"})

    def runner(case):
        return _run_one(ctx, case)

    ctx.hyp("enc", enc_cases, runner, ctx.n(1000, 320000))
    ctx.hyp("dec", dec_cases, runner, ctx.n(1000, 320000))
    ctx.hyp("send", send_cases, runner, ctx.n(1600, 64000))
