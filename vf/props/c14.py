"""C14  Application containment: no device response makes an operation raise."""
from __future__ import annotations

import hashlib
import itertools
import random

from hypothesis import strategies as st

from .. import respkinds as RK
from .. import model_ac as M
from .. import refcodec as rc
from .. import vloop
from ..devsim import SimDevice

ID = "C14"
LEVEL = "exploration"
SHARDS = {"quick": 8, "thorough": 16}
RULE = ("(overlap: an apply() started 0.05..0.65 s into a multi-query poll of the same client, bad frames mixed into the poll's answers; what only the poll delivers must end up as when both run one after the other) response frames built from every valid kind (state, capabilities, properties B1/B0, energy, humidity): truncated to every "
        "shorter body length (body check and outer checksum recomputed so validation passes; also the empty frame and frames "
        "shorter than the header), every count byte, size byte and capability value byte set to 0..255, the header length byte inconsistent with the real length, valid frames of every kind whose data bytes are all 0x00 / 0xFF / 0x99 (e.g. the all-zero energy response) arriving after real data on the same client, well-formed property responses whose records combine every property id the library knows (decoded or not) or unknown ids with result bytes (success / failure flag) and sizes 0..14, a well-formed header-only or full frame followed by 1..48 trailing bytes (padding or the start of another frame), every response id 0..255 with random "
        "bodies of length 0..60 and frame types 0..7, oversized frames, and fields pointing past the end; delivered alone or in "
        "mixes [bad*, good, bad*] as the answer to every request of an operation (refresh, apply with/without pending property "
        "updates, get_capabilities first/additional page, toggle_display, start_self_clean, and short sequences of them under the same device); optionally the unit hangs up behind every answer (FIN / RST, seen by the client's event loop after or in the same pass as the answer: the client's state must equal the state reached when the connection stays open), optionally the host process raises warnings attributed to the library's modules as errors (python -W error). Oracle: the operation returns "
        "without raising; for mixes whose bad members are undecodable or irrelevant by specification, the client's state after "
        "the operation equals the state after the same operation with only the good frames. Non-trivial: the bad frame passes "
        "Frame.validate and (where applicable) the body check. Distinct by (frames, operation).")
ASSUMPTIONS = ["'irrelevant by specification' = bad checksum, shorter than header+id, unknown response id, state body shorter than 16 "
               "bytes, group-data body shorter than the fixed offsets of its group (19 for energy, 5 for humidity)"]

OPS = ["refresh", "apply", "apply_props", "caps", "toggle", "clean", "refresh,apply", "caps,refresh,apply_props", "refresh,toggle,apply", "refresh,caps,refresh"]


def rebuild(ftype: int, body_wo_check: bytes, check: str = "crc") -> bytes:
    """A frame whose checksums are right whatever the body (length byte modulo 256 for oversized)."""
    return rc.frame_build(ftype, body_wo_check, check=check, proto=3)


def short_frame(k: int) -> bytes:
    """k raw bytes (k < 13) with a matching outer checksum."""
    if k == 0:
        return b""
    f = bytearray([0xAA, k - 1, 0xAC, 0, 0, 0, 0, 0, 3, 3, 0xC0, 1][:k])
    if k >= 2:
        f[-1] = rc.checksum(bytes(f[1:-1]))
    return bytes(f)


def make_frame(spec: dict) -> bytes:
    t = spec["t"]
    if t == "hex":
        return bytes.fromhex(spec["hex"])
    if t == "short":
        return short_frame(spec["k"])
    if t == "trunc":
        f = RK.valid_frame(spec["kind"], 1)
        body = f[10:-2]
        return rebuild(f[9], body[:spec["k"]], "sum" if spec["kind"] == "state_sum" else "crc")
    if t == "setbyte":
        f = RK.valid_frame(spec["kind"], 1)
        body = bytearray(f[10:-2])
        body[spec["pos"] % len(body)] = spec["val"]
        return rebuild(f[9], bytes(body), "sum" if spec["kind"] == "state_sum" else "crc")
    if t == "id":
        return rebuild(spec.get("ftype", 3), bytes([spec["id"]]) + bytes.fromhex(spec.get("body", "")), spec.get("check", "crc"))
    if t == "oversize":
        f = RK.valid_frame(spec["kind"], 1)
        body = f[10:-2] + bytes((i * 7) & 0xFF for i in range(spec["extra"]))
        return rebuild(f[9], body)
    if t == "lenbyte":
        # a frame whose header length byte disagrees with its real length (outer checksum still right)
        f = bytearray(RK.valid_frame(spec["kind"], 1))
        if spec.get("k") is not None:
            body = bytes(f[10:-2])[:spec["k"]]
            f = bytearray(rebuild(f[9], body, "sum" if spec["kind"] == "state_sum" else "crc"))
            f[1] = len(RK.valid_frame(spec["kind"], 1)) - 1        # truncated on the way, length byte as originally sent
        else:
            f[1] = spec["val"] & 0xFF
        f[-1] = rc.checksum(bytes(f[1:-1]))
        return bytes(f)
    if t == "zero":
        # a *valid* frame of the kind whose data bytes are all zero (or all `fill`): what a unit that has nothing to
        # report sends, e.g. the all-zero energy response of units without a power meter
        f = RK.valid_frame(spec["kind"], 1)
        body = bytearray(f[10:-2])
        keep = {"state": 1, "state_sum": 1, "caps": 2, "props_b1": 2, "props_b0": 2, "energy": 4, "humidity": 4}[spec["kind"]]
        for i in range(keep, len(body)):
            body[i] = spec.get("fill", 0)
        return rebuild(f[9], bytes(body), "sum" if spec["kind"] == "state_sum" else "crc")
    if t == "props":
        # a well-formed property response (0xB0 / 0xB1): records (id, result byte, size, data) in any combination
        recs = b"".join(M.prop_resp_record(r[0], bytes.fromhex(r[2]), r[1]) for r in spec["records"])
        count = spec.get("count", len(spec["records"]))
        return rebuild(2 if spec["rid"] == 0xB0 else 3, bytes([spec["rid"], count & 0xFF]) + recs)
    if t == "padded":
        # a well-formed (possibly header-only) frame followed by bytes that do not belong to it (block padding, the
        # start of the next frame): the length byte and checksum describe only the leading part
        lead = short_frame(spec["k"]) if spec.get("k") is not None else RK.valid_frame(spec["kind"], 1)
        pad = spec["extra"]
        tail = {"zero": bytes(pad), "pkcs": bytes([pad & 0xFF]) * pad, "frame": (RK.valid_frame("state", 1) * 3)[:pad]}[spec.get("fill", "zero")]
        return lead + tail
    if t == "badsum":
        f = bytearray(RK.valid_frame(spec["kind"], 1))
        f[-1] ^= 0x55
        return bytes(f)
    raise ValueError(t)


def irrelevant_by_spec(frame: bytes) -> bool:
    """Frames that are undecodable or irrelevant by specification (see ASSUMPTIONS)."""
    if len(frame) < 12:
        return True
    if rc.checksum(frame[1:-1]) != frame[-1]:
        return True
    rid = frame[10]
    body = frame[10:-2]
    if rid not in (0xB0, 0xB1, 0xB5, 0xC0, 0xC1):
        return True
    if rid == 0xC0 and len(body) < 16:
        return True
    if rid == 0xC1:
        if len(body) < 4:
            return True
        group = body[3] & 0x0F
        if group == 4:
            return len(body) < 19
        if group == 5:
            return len(body) < 5
        return True          # other groups are not interpreted
    return False


async def _operate(ac, op: str) -> None:
    from msmart.device import AirConditioner as AC
    if "," in op:
        # a short history under the same hostile device: what one operation leaves behind is input to the next
        for sub in op.split(","):
            await _operate(ac, sub)
        return
    if op == "refresh":
        await ac.refresh()
    elif op == "apply":
        await ac.apply()
    elif op == "apply_props":
        ac.vertical_swing_angle = AC.SwingAngle.POS_3
        ac.ieco = True
        await ac.apply()
    elif op == "caps":
        await ac.get_capabilities()
    elif op == "toggle":
        await ac.toggle_display()
    elif op == "clean":
        await ac.start_self_clean()
    else:
        raise ValueError(op)


def _run(case: dict, with_bad: bool):
    from msmart.device import AirConditioner as AC
    pre = [make_frame(s) for s in case.get("pre", [])] if with_bad else []
    post = [make_frame(s) for s in case.get("post", [])] if with_bad else []
    good = case.get("good", True)
    net = vloop.Net()
    res = {}

    async def main(loop):
        m = RK.model(0)
        if case.get("two_pages"):
            recs = m.cap_pages[0][0]
            m.cap_pages = [(recs[:4], b"\x01\x00"), (recs[4:], b"")]
        dev = SimDevice(loop, version=2, device_id=3, ac=m)
        dev.hangup = case.get("hangup")      # the unit hangs up behind every answer (FIN / RST, seen after or in the same loop pass as the answer)
        net.listen("10.0.0.9", 6444, dev)
        ac = AC(ip="10.0.0.9", port=6444, device_id=3)
        if case.get("prepared", True):
            await ac.get_capabilities()
            await ac.refresh()
        m1 = RK.model(1)
        m.state, m.props, m.energy, m.indoor_humidity = m1.state, m1.props, m1.energy, m1.indoor_humidity
        if not case.get("two_pages"):
            m.cap_pages = m1.cap_pages
        m.response_hook = lambda fr, p, outp: pre + (outp if good else []) + post
        if case.get("fan") is not None:
            m.state.fan = case["fan"]        # the unit reports an in-between fan speed (whatever its capabilities say)
        if case.get("state_len"):
            m.state_len = case["state_len"]  # an older unit: its state reports end before the optional trailing fields
        if case.get("mode"):
            m.state.mode = case["mode"]
        try:
            await _operate(ac, case["op"])
        except Exception as e:
            res["exc"] = e
        res["snap"] = RK.snapshot(ac)
        res["online"], res["supported"] = ac.online, ac.supported
        ac._lan._disconnect()

    from .. import harness
    with harness.strict_warnings(bool(case.get("strict"))):
        vloop.run(main, net)
    return res


POLL_ONLY = ["indoor_humidity", "total_energy_usage", "current_energy_usage", "real_time_power_usage", "horizontal_swing_angle", "vertical_swing_angle", "rate_select", "self_clean"]


def check_overlap(case: dict):
    """A poll is waiting for its answers (the unit takes 0.3 s per answer, bad frames mixed in) when the user applies on the same object.
    What only the poll can deliver (humidity, energy, property values) must end up exactly as when poll and apply run one after the other."""
    import asyncio
    from msmart.device import AirConditioner as AC
    pre = [make_frame(s_) for s_ in case.get("pre", [])]
    snaps = []
    for sequential in (False, True):
        net = vloop.Net()
        res = {}

        async def main(loop, sequential=sequential):
            m = RK.model(0)
            dev = SimDevice(loop, version=2, device_id=3, ac=m)
            net.listen("10.0.0.9", 6444, dev)
            ac = AC(ip="10.0.0.9", port=6444, device_id=3)
            await ac.get_capabilities()
            ac.enable_energy_usage_requests = True
            await ac.refresh()
            m1 = RK.model(1)
            m.props, m.energy, m.indoor_humidity = m1.props, m1.energy, m1.indoor_humidity
            dev.latency = 0.3
            m.response_hook = lambda fr, p, outp: (pre + outp) if p.body[0] != 0x40 else outp
            try:
                if sequential:
                    await ac.refresh()
                    ac.target_temperature = 25.0
                    await ac.apply()
                else:
                    t_poll = asyncio.ensure_future(ac.refresh())
                    await asyncio.sleep(case.get("gap", 0.1))
                    ac.target_temperature = 25.0
                    await ac.apply()
                    await t_poll
            except Exception as e:
                res["exc"] = e
            res["snap"] = RK.snapshot(ac)
            ac._lan._disconnect()

        vloop.run(main, net)
        snaps.append(res)
    got, ref = snaps
    if "exc" in ref:
        return ("overlap/reference-raises", f"{ref['exc']!r}")
    if "exc" in got:
        return (f"overlap/raises/{type(got['exc']).__name__}", f"{got['exc']!r} with an apply overlapping a poll")
    diff = {k: (ref["snap"][k], got["snap"][k]) for k in POLL_ONLY if k in ref["snap"] and ref["snap"][k] != got["snap"][k]}
    if diff:
        return ("good-frames-lost/overlap", f"decodable responses of a poll that an apply() overlapped were not applied (sequential, overlapped): {diff}")
    return None


def check_case(case: dict):
    if case.get("overlap"):
        return check_overlap(case)
    res = _run(case, True)
    if "exc" in res:
        e = res["exc"]
        tb = e.__traceback__
        inner = None
        while tb is not None:
            inner = tb
            tb = tb.tb_next
        where = inner.tb_frame.f_code.co_name if inner else "?"
        return (f"raises/{type(e).__name__}@{where}", f"{case['op']} raised {e!r} for frames {[make_frame(s).hex()[:80] for s in case.get('pre', []) + case.get('post', [])]}")
    bads = [make_frame(s) for s in case.get("pre", []) + case.get("post", [])]
    if case.get("good", True) and bads and all(irrelevant_by_spec(b) for b in bads):
        clean = _run(case, False)
        if "exc" in clean:
            return ("clean-run-raises", f"{clean['exc']!r}")
        if clean["snap"] != res["snap"]:
            diff = {k: (clean["snap"][k], res["snap"][k]) for k in clean["snap"] if clean["snap"][k] != res["snap"][k]}
            return ("good-frames-lost", f"{case['op']}: state with bad frames mixed in differs from state with the good frames only: {diff}")
        if case.get("hangup"):
            # ... and a unit that hangs up behind its answers leaves the client in the same state as one that keeps the connection open
            base = _run(dict(case, hangup=None), False)
            if "exc" not in base and base["snap"] != res["snap"]:
                diff = {k: (base["snap"][k], res["snap"][k]) for k in base["snap"] if base["snap"][k] != res["snap"][k]}
                return ("good-frames-lost/hangup", f"{case['op']}: state differs from the state reached when the unit keeps the connection open (hang-up {case['hangup']}): {diff}")
    return None


def replay(ctx, case):
    return check_case(case)


def _nt(case) -> bool:
    for s in case.get("pre", []) + case.get("post", []):
        f = make_frame(s)
        if len(f) >= 2 and rc.checksum(f[1:-1]) == f[-1]:
            return True
    return False


def _run_one(ctx, case):
    import json
    ctx.case(hash(json.dumps(case, sort_keys=True)), _nt(case), cls=f"{case['op']}/" + "+".join(sorted({s['t'] for s in case.get('pre', []) + case.get('post', [])})))
    ctx.sample(case["op"] + "/" + (case.get("pre", []) + case.get("post", []) + [{"t": "none"}])[0]["t"], case)
    return check_case(case)


def _specs(quick: bool, rnd: random.Random) -> list:
    specs = []
    for k in range(0, 13):
        specs.append({"t": "short", "k": k})
    for kind in RK.KINDS:
        n = len(RK.valid_frame(kind, 1)) - 12
        for k in range(0, n):
            specs.append({"t": "trunc", "kind": kind, "k": k})
        specs.append({"t": "badsum", "kind": kind})
        for extra in (1, 100, 215, 230, 300):
            specs.append({"t": "oversize", "kind": kind, "extra": extra})
    # count bytes and size bytes <- 0..255
    vals = range(256) if not quick else [0, 1, 2, 3, 5, 9, 10, 11, 12, 13, 14, 16, 31, 64, 127, 128, 200, 254, 255]
    caps = RK.valid_frame("caps", 1)[10:-2]
    size_pos = [1]
    pos = 2
    while pos + 2 < len(caps):
        size_pos.append(pos + 2)
        pos += 3 + caps[pos + 2]
    for p in size_pos:
        for v in vals:
            specs.append({"t": "setbyte", "kind": "caps", "pos": p, "val": v})
    for kind in ("props_b1", "props_b0"):
        pb = RK.valid_frame(kind, 1)[10:-2]
        size_pos = [1]
        pos = 2
        while pos + 3 < len(pb):
            size_pos += [pos + 2, pos + 3]
            pos += 4 + pb[pos + 3]
        for p in size_pos:
            for v in vals:
                specs.append({"t": "setbyte", "kind": kind, "pos": p, "val": v})
    for p in (1, 2, 3):
        for v in vals:
            specs.append({"t": "setbyte", "kind": "energy", "pos": p, "val": v})
    # every capability *value* byte (first data byte of each record) <- odd values
    pos = 2
    while pos + 2 < len(caps):
        if caps[pos + 2]:
            for v in vals:
                specs.append({"t": "setbyte", "kind": "caps", "pos": pos + 3, "val": v})
        pos += 3 + caps[pos + 2]
    # header length byte inconsistent with the real length
    for kind in RK.KINDS:
        n = len(RK.valid_frame(kind, 1))
        for v in sorted({0, 1, 9, 10, 11, 12, 13, n - 3, n - 2, n - 1, n, n + 1, 200, 255}):
            specs.append({"t": "lenbyte", "kind": kind, "val": v})
        for k in range(0, n - 12, 3 if quick else 1):
            specs.append({"t": "lenbyte", "kind": kind, "k": k})
    # valid frames with nothing in them (all data bytes 0x00 / 0xFF), delivered after the normal answer of a prepared client
    for kind in RK.KINDS:
        for fill in (0x00, 0xFF, 0x99):
            specs.append({"t": "zero", "kind": kind, "fill": fill})
    # property responses: every property id the library knows (decoded or not) and unknown ones x result byte x size
    pids = [0x0009, 0x000A, 0x0015, 0x0018, 0x001A, 0x0039, 0x0042, 0x0043, 0x0048, 0x004B, 0x00E3, 0x021E, 0x0001, 0x0227, 0xFFFF]
    for pid in pids:
        for result in (0x00, 0x10, 0x11, 0x01, 0xFF):
            for size in (0, 1, 2, 13):
                data = bytes((pid + 3 * i + size) & 0xFF for i in range(size))
                for rid in (0xB0, 0xB1):
                    if quick and (size == 2 or (result in (0x01, 0xFF) and rid == 0xB0)):
                        continue
                    specs.append({"t": "props", "rid": rid, "records": [[0x0009, 0, "19"], [pid, result, data.hex()], [0x000A, 0, "32"]]})
    # a well-formed short or full frame followed by trailing bytes
    for k in range(2, 13):
        for extra in sorted({1, 2, 5, 13 - k, 14 - k, 16, 16 - k % 16, 40}):
            if extra > 0:
                for fill in ("zero", "pkcs", "frame"):
                    specs.append({"t": "padded", "k": k, "extra": extra, "fill": fill})
    for kind in RK.KINDS:
        for extra in (1, 5, 16):
            specs.append({"t": "padded", "kind": kind, "extra": extra, "fill": "pkcs"})
    # every response id with bodies of several lengths, every frame type
    for rid in range(256):
        lens = (0, 1, 2, 3, 4, 5, 14, 15, 16, 18, 19, 20, 24, 40, 60) if not quick else (0, 2, 4, 15, 19, 30)
        if quick and rid not in (0xB0, 0xB1, 0xB5, 0xC0, 0xC1, 0xA0, 0xA1, 0x00, 0xFF) and rid % 16:
            continue
        for L in lens:
            body = hashlib.sha256(b"c14/%d/%d" % (rid, L)).digest() * 2
            for ftype in ((2, 3, 5) if quick else range(8)):
                specs.append({"t": "id", "id": rid, "body": body[:L].hex(), "ftype": ftype})
    return specs


def run(ctx) -> None:
    rnd = random.Random(ctx.seed + 3)
    specs = _specs(ctx.quick, rnd)
    n = 0
    for i, spec in enumerate(specs):
        # each bad frame: alone (no good frame) and mixed before/after the good answer; frames that look like one of the
        # known response kinds meet every operation, the rest two operations each (all of them in the thorough tier)
        known_kind = spec["t"] != "id" or spec["id"] in (0xB0, 0xB1, 0xB5, 0xC0, 0xC1)
        if not ctx.quick or (spec["t"] == "id" and known_kind):
            ops = OPS
        else:
            ops = [OPS[i % len(OPS)], OPS[(i // len(OPS) + 3) % len(OPS)]]
        for op in dict.fromkeys(ops):
            for arrangement in ("alone", "before", "after"):
                for two_pages in ((False, True) if op.startswith("caps") else (False,)):
                    n += 1
                    if not ctx.mine(n):
                        continue
                    if ctx.quick and arrangement == "after" and i % 2 and not (spec["t"] == "id" and known_kind):
                        continue
                    case = {"op": op, "good": arrangement != "alone", "pre": [spec] if arrangement != "after" else [],
                            "post": [spec] if arrangement == "after" else [], "two_pages": two_pages}
                    if n % 5 == 0:
                        case["hangup"] = ["fin", "rst", "fin_same", "rst_same"][(n // 5) % 4]
                    if n % 4 == 1:
                        case["strict"] = True
                    ctx.check(case, lambda c: _run_one(ctx, c))
    ctx.sweep("bad frame catalogue x operations x arrangements", n, not ctx.quick)
    # histories in which the client polls before it knows the capabilities (any reported fan speed is then taken as is), learns
    # them, and polls again - the unit reporting in-between fan speeds throughout
    fh = 0
    for fan in (1, 33, 50, 99, 101, 0, 127):
        for op in ("refresh,caps,refresh", "refresh,caps,refresh,apply", "refresh,caps,toggle", "caps,refresh,apply", "refresh,caps,apply_props,refresh"):
            for i, spec in enumerate(specs[:: max(1, len(specs) // 3)][:3]):
                fh += 1
                if ctx.mine(fh):
                    case = {"op": op, "good": True, "pre": [spec] if i else [], "post": [], "two_pages": False, "prepared": False, "fan": fan}
                    ctx.check(case, lambda c: _run_one(ctx, c))
    ctx.sweep("poll before and after the capability query x reported in-between fan speed x bad frames", fh, True)
    # older units with short state reports (16..21 bytes: target humidity / freeze protection unknown), in every mode, polled and applied to
    sh = 0
    for state_len in (16, 17, 18, 19, 20, 21):
        for mode in (1, 2, 3, 4, 5, 6):
            for op in ("refresh,apply", "refresh,apply_props", "refresh,toggle,apply", "caps,refresh,apply"):
                sh += 1
                if ctx.mine(sh):
                    case = {"op": op, "good": True, "pre": [], "post": [], "two_pages": False, "prepared": sh % 2 == 0, "state_len": state_len, "mode": mode}
                    ctx.check(case, lambda c: _run_one(ctx, c))
    ctx.sweep("short state reports x operational mode x operation sequences", sh, True)
    # an apply overlapping a poll whose exchanges also carry undecodable frames
    ov = 0
    for i, spec in enumerate(specs[:: max(1, len(specs) // 24)]):
        for gap in (0.05, 0.1, 0.35, 0.65):
            ov += 1
            if ctx.mine(ov):
                case = {"overlap": True, "op": "refresh", "pre": [spec] if i % 3 else [], "gap": gap}
                ctx.case(hash(("overlap", i, gap)), True, cls="overlap")
                ctx.sample("overlap", case)
                ctx.check(case, check_case)
    ctx.sweep("apply overlapping a multi-query poll x bad frames x gap", ov, True)

    hexb = lambda s_: s_.map(lambda b: b.hex())
    spec = st.one_of(
        st.fixed_dictionaries({"t": st.just("trunc"), "kind": st.sampled_from(RK.KINDS), "k": st.integers(0, 70)}),
        st.fixed_dictionaries({"t": st.just("setbyte"), "kind": st.sampled_from(RK.KINDS), "pos": st.integers(0, 80), "val": st.integers(0, 255)}),
        st.fixed_dictionaries({"t": st.just("id"), "id": st.one_of(st.sampled_from([0xB0, 0xB1, 0xB5, 0xC0, 0xC1]), st.integers(0, 255)),
                               "body": hexb(st.binary(max_size=60)), "ftype": st.integers(0, 7), "check": st.sampled_from(["crc", "sum"])}),
        st.fixed_dictionaries({"t": st.just("short"), "k": st.integers(0, 12)}),
        st.fixed_dictionaries({"t": st.just("oversize"), "kind": st.sampled_from(RK.KINDS), "extra": st.integers(1, 400)}),
        st.fixed_dictionaries({"t": st.just("badsum"), "kind": st.sampled_from(RK.KINDS)}),
        st.fixed_dictionaries({"t": st.just("lenbyte"), "kind": st.sampled_from(RK.KINDS), "val": st.integers(0, 255)}),
        st.fixed_dictionaries({"t": st.just("zero"), "kind": st.sampled_from(RK.KINDS), "fill": st.sampled_from([0, 0, 0xFF, 0x99, 0x0A])}),
        st.fixed_dictionaries({"t": st.just("props"), "rid": st.sampled_from([0xB0, 0xB1]),
                               "records": st.lists(st.tuples(st.one_of(st.sampled_from([0x0009, 0x000A, 0x0015, 0x0018, 0x001A, 0x0039, 0x0042, 0x0043, 0x0048, 0x004B, 0x00E3, 0x021E]), st.integers(0, 0xFFFF)),
                                                             st.sampled_from([0, 0, 0x10, 0x11, 0x01, 0xFF]), st.binary(max_size=14).map(lambda b: b.hex())).map(list), max_size=6)},
                              optional={"count": st.integers(0, 8)}),
        st.fixed_dictionaries({"t": st.just("padded"), "k": st.integers(2, 12), "extra": st.integers(1, 48), "fill": st.sampled_from(["zero", "pkcs", "frame"])}),
        st.fixed_dictionaries({"t": st.just("padded"), "kind": st.sampled_from(RK.KINDS), "extra": st.integers(1, 48), "fill": st.sampled_from(["zero", "pkcs", "frame"])}),
        st.fixed_dictionaries({"t": st.just("lenbyte"), "kind": st.sampled_from(RK.KINDS), "k": st.integers(0, 70), "val": st.just(0)}),
    )
    cases = st.fixed_dictionaries({"op": st.sampled_from(OPS), "good": st.booleans(), "pre": st.lists(spec, max_size=2),
                                   "post": st.lists(spec, max_size=2), "two_pages": st.booleans(), "prepared": st.booleans()},
                                  optional={"hangup": st.sampled_from(["fin", "rst", "fin_same", "rst_same"]), "strict": st.booleans(), "fan": st.sampled_from([1, 33, 50, 99, 101]), "state_len": st.sampled_from([16, 18, 19, 21]), "mode": st.sampled_from([1, 3, 6])})
    ctx.hyp("mixes", cases, lambda c: _run_one(ctx, c), ctx.n(2500, 480000))

    # coverage-guided search (atheris/libFuzzer) over the same structured input space; an additional search,
    # the verdict never depends on it being available
    from .. import fuzzrun
    if not ctx.quick or ctx.shard < 2:
        fuzzrun.run_atheris(ctx, "c14", 15000 if ctx.quick else 300000, check_case)
