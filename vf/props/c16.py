"""C16  Property-protocol settings: sent once, correctly encoded, read back equal."""
from __future__ import annotations

from hypothesis import strategies as st

from .. import model_ac as M
from .. import refcodec as rc
from .. import respkinds as RK
from .. import vloop
from ..devsim import SimDevice

ID = "C16"
LEVEL = "exploration"
SHARDS = {"quick": 8, "thorough": 16}
RULE = ("(also: pairs of breeze settings given to `msmart-ng control` in either order, through C20's command-line harness) model-based histories: optionally the unit hangs up after every answer (FIN or RST, seen by the client's event loop after or in the same pass as the answer; the transport asks eof_received() as asyncio does); operation `apply_cancelled_early`: the unit answers the state command and hangs up, the reconnect for the property write hangs and the caller gives up - the next apply() still owes the write; operation `apply_cutack`: the unit executes the property write and its acknowledgement arrives cut short inside a record (checksum valid) - the write counts as made; a capability profile (breeze in {breeze-control, legacy away only, legacy breezeless only, legacy "
        "both, none}; rate select none/2-level/5-level; iECO, self-clean, vertical/horizontal swing angle present or not) and a "
        "list of up to 25 (quick) / 40 (thorough) operations from {set angle (every member), set rate select (members the profile "
        "supports), breeze_away/mild/breezeless := bool (only where supports_* is true), ieco := bool, start_self_clean, beep := "
        "bool, change ordinary 0x40 settings (setpoint, eco, swing mode, power, mode, fan, turbo), apply, apply during which the reply to the state command is lost or corrupted, apply during which another setter is called while it waits for the device, apply whose calling task is cancelled just after its property write reached the device (exactly one write, none by the next apply), refresh, device-side change of a property}. Start: get_capabilities(), "
        "refresh(). Oracle: the model device's property store and write log: after each apply every property whose setter was "
        "called since the previous apply appears in exactly one 0xB0 of that apply under the advertised id with the vendor value "
        "(angles/rates raw, breeze-control 1..4, breeze-away 2/1, breezeless 1/0, iECO 13-byte record with number at 1 and switch "
        "at 2, buzzer = beep) and nothing else is written; no pending setter => no 0xB0; after each refresh every property "
        "attribute equals the device's stored value translated back; at most one breeze mode true at any time. Non-trivial: >= 2 "
        "applies with a setter call between them and a refresh after. Distinct by (profile, operation list).")
ASSUMPTIONS = ["on the 'legacy both' profile the two louver modes exclude each other on the device (switching one on switches the other off)",
               "setters are only called where supports_* is true (the precondition every caller such as midea-ac-py respects)"]

ANGLES = [0, 1, 25, 50, 75, 100]
RATES2 = [100, 50, 75]
RATES5 = [100, 1, 20, 40, 60, 80]


def _caps(profile: dict) -> list:
    recs = []
    b = profile["breeze"]
    if b == "control":
        recs.append(M.cap_record(0x0043, b"\x01"))
        if profile.get("legacy_too"):
            recs += [M.cap_record(0x0042, b"\x01"), M.cap_record(0x0018, b"\x01")]
    elif b == "away":
        recs += [M.cap_record(0x0042, b"\x01"), M.cap_record(0x0018, b"\x00")]
    elif b == "breezeless":
        recs += [M.cap_record(0x0018, b"\x01"), M.cap_record(0x0042, b"\x00")]
    elif b == "both":
        recs += [M.cap_record(0x0042, b"\x01"), M.cap_record(0x0018, b"\x01")]
    if profile["rate"] == 2:
        recs.append(M.cap_record(0x0048, b"\x01"))
    elif profile["rate"] == 5:
        recs.append(M.cap_record(0x0048, bytes([profile.get("rate5_code", 2)])))
    if profile["ieco"]:
        recs.append(M.cap_record(0x00E3, b"\x01"))
    if profile["self_clean"]:
        recs.append(M.cap_record(0x0039, b"\x01"))
    if profile["ud"]:
        recs.append(M.cap_record(0x0009, b"\x01"))
    if profile["lr"]:
        recs.append(M.cap_record(0x000A, b"\x01"))
    recs.append(M.cap_record(0x022C, b"\x01"))
    return recs


def _store(profile: dict) -> dict:
    p = {}
    b = profile["breeze"]
    if b == "control":
        p[0x0043] = b"\x01"
    if b in ("away", "both"):
        p[0x0042] = b"\x01"
    if b in ("breezeless", "both"):
        p[0x0018] = b"\x00"
    if profile["rate"]:
        p[0x0048] = b"\x64"
    if profile["ieco"]:
        p[0x00E3] = bytes([1, 0]) + bytes(10)
    if profile["self_clean"]:
        p[0x0039] = b"\x00"
    if profile["ud"]:
        p[0x0009] = b"\x00"
    if profile["lr"]:
        p[0x000A] = b"\x00"
    return p


def check_case(case: dict):
    from msmart.device import AirConditioner as AC
    profile = case["profile"]
    ops = case["ops"]
    net = vloop.Net()
    res = {"v": None}

    def fail(bucket, detail):
        if res["v"] is None:
            res["v"] = (bucket, detail)

    async def main(loop):
        m = M.ModelAC()
        m.cap_pages = [(_caps(profile), b"")]
        m.props = _store(profile)
        dev = SimDevice(loop, version=2, device_id=3, ac=m)
        dev.hangup = case.get("hangup")      # the unit hangs up after every answer (FIN / RST; seen by the client's loop after or with the answer)
        net.listen("10.0.0.9", 6444, dev)
        ac = AC(ip="10.0.0.9", port=6444, device_id=3)
        await ac.get_capabilities()
        await ac.refresh()
        b = profile["breeze"]
        sup = {"away": b in ("control", "away", "both"), "mild": b == "control", "breezeless": b in ("control", "breezeless", "both")}
        if (ac.supports_breeze_away, ac.supports_breeze_mild, ac.supports_breezeless) != (sup["away"], sup["mild"], sup["breezeless"]):
            return fail("profile/supports", f"supports_* {(ac.supports_breeze_away, ac.supports_breeze_mild, ac.supports_breezeless)} for profile {profile}")
        # what the unit advertises is what the client reports as supported (absolute, not relative to another parse)
        adv = {"supports_vertical_swing_angle": profile["ud"], "supports_horizontal_swing_angle": profile["lr"], "supports_ieco": profile["ieco"],
               "supports_self_clean": profile["self_clean"]}
        for attr, want_ in adv.items():
            if bool(getattr(ac, attr)) != bool(want_):
                return fail("profile/supports", f"{attr} is {getattr(ac, attr)!r} for a unit that {'advertises' if want_ else 'does not advertise'} it (profile {profile})")
        if bool(ac.supported_rate_selects and len([r_ for r_ in ac.supported_rate_selects if int(r_) != 100]) > 0) != bool(profile["rate"]):
            return fail("profile/supports", f"supported_rate_selects {ac.supported_rate_selects} for rate profile {profile['rate']}")
        # client-side logical values and pending set (model of what the user asked for)
        cv = {"ud": 0, "lr": 0, "rate": 100, "breeze": 1, "ieco": False}
        pending = set()
        beep = False

        def breeze_pid(which):
            if b == "control":
                return 0x0043
            return 0x0042 if which == "away" else 0x0018

        def check_breeze_exclusive(where):
            n = sum(1 for x in (ac.breeze_away, ac.breeze_mild, ac.breezeless) if x)
            if n > 1:
                fail("breeze/exclusive", f"{n} breeze modes true {where}")

        def device_view():
            p = m.props
            out = {}
            if 0x0009 in p:
                out["ud"] = p[0x0009][0]
            if 0x000A in p:
                out["lr"] = p[0x000A][0]
            if 0x0048 in p:
                out["rate"] = p[0x0048][0]
            if 0x00E3 in p:
                out["ieco"] = bool(p[0x00E3][1])
            if 0x0039 in p:
                out["clean"] = bool(p[0x0039][0])
            if b == "control":
                v = p[0x0043][0]
                out["breeze"] = v if v in (1, 2, 3, 4) else 1
            elif b in ("away", "breezeless", "both"):
                away = p.get(0x0042, b"\x01")[0] == 2
                bl = bool(p.get(0x0018, b"\x00")[0])
                out["breeze"] = 4 if bl else (2 if away else 1)
                out["_both_on"] = away and bl
            return out

        for op in ops:
            if res["v"]:
                break
            k = op[0]
            if k == "ud" and profile["ud"]:
                ac.vertical_swing_angle = AC.SwingAngle(op[1])
                cv["ud"] = op[1]
                pending.add(0x0009)
            elif k == "lr" and profile["lr"]:
                ac.horizontal_swing_angle = AC.SwingAngle(op[1])
                cv["lr"] = op[1]
                pending.add(0x000A)
            elif k == "rate" and profile["rate"]:
                vals = RATES2 if profile["rate"] == 2 else RATES5
                v = vals[op[1] % len(vals)]
                ac.rate_select = AC.RateSelect(v)
                cv["rate"] = v
                pending.add(0x0048)
            elif k == "away" and sup["away"]:
                ac.breeze_away = op[1]
                cv["breeze"] = 2 if op[1] else 1
                pending.add(breeze_pid("away"))
            elif k == "mild" and sup["mild"]:
                ac.breeze_mild = op[1]
                cv["breeze"] = 3 if op[1] else 1
                pending.add(0x0043)
            elif k == "breezeless" and sup["breezeless"]:
                ac.breezeless = op[1]
                cv["breeze"] = 4 if op[1] else 1
                pending.add(breeze_pid("breezeless"))
            elif k == "ieco" and profile["ieco"]:
                ac.ieco = op[1]
                cv["ieco"] = op[1]
                pending.add(0x00E3)
            elif k == "beep":
                ac.beep = op[1]
                beep = op[1]
            elif k == "setting":
                # ordinary settings of the 0x40 state command; they must not influence what the property protocol carries
                ac.target_temperature = 17.0 + (op[1] % 27) * 0.5
                ac.eco = bool(op[1] & 1)
                ac.swing_mode = AC.SwingMode([0x0, 0xC, 0x3, 0xF][(op[1] >> 1) % 4])
                ac.power_state = bool((op[1] >> 3) & 1)
                ac.operational_mode = AC.OperationalMode(1 + (op[1] >> 2) % 5)
                ac.fan_speed = [102, 100, 80, 60, 40, 20, 55][op[1] % 7]
                ac.turbo = bool((op[1] >> 4) & 1)
            elif k == "clean" and profile["self_clean"]:
                mark = len(m.prop_writes)
                await ac.start_self_clean()
                w = m.prop_writes[mark:]
                if len(w) != 1 or dict(w[0]) != {0x0039: b"\x01", 0x001A: bytes([1 if beep else 0])}:
                    fail("self_clean/write", f"start_self_clean wrote {[[(hex(p), v.hex()) for p, v in x] for x in w]} (beep={beep})")
            elif k == "remote":
                # someone used the remote control: device-side change
                pid = op[1]
                if pid in m.props:
                    if pid == 0x00E3:
                        m.props[pid] = bytes([1, op[2] & 1]) + bytes(10)
                    elif pid == 0x0043:
                        m.props[pid] = bytes([1 + op[2] % 4])
                    elif pid == 0x0042:
                        m.props[pid] = bytes([1 + op[2] % 2])
                        if m.props[pid] == b"\x02" and 0x0018 in m.props:
                            m.props[0x0018] = b"\x00"
                    elif pid == 0x0018:
                        m.props[pid] = bytes([op[2] % 2])
                        if m.props[pid] == b"\x01" and 0x0042 in m.props:
                            m.props[0x0042] = b"\x01"
                    elif pid == 0x0048:
                        vals = RATES2 if profile["rate"] == 2 else RATES5
                        m.props[pid] = bytes([vals[op[2] % len(vals)]])
                    elif pid in (0x0009, 0x000A):
                        m.props[pid] = bytes([ANGLES[op[2] % 6]])
                    elif pid == 0x0039:
                        m.props[pid] = bytes([op[2] & 1])
            elif k == "apply_concurrent":
                # a setter is called while apply() is suspended waiting for the reply to its state command; the change must be
                # transmitted by this apply or by the next one (exactly once), never lost
                import asyncio
                mark = len(m.prop_writes)
                before = set(pending)
                task = asyncio.ensure_future(ac.apply())
                await asyncio.sleep(0.02)
                late = None
                if op[1] == 0 and profile["ud"]:
                    ac.vertical_swing_angle = AC.SwingAngle(ANGLES[op[2] % 6])
                    cv["ud"] = ANGLES[op[2] % 6]
                    late = 0x0009
                elif op[1] == 1 and profile["ieco"]:
                    ac.ieco = bool(op[2] & 1)
                    cv["ieco"] = bool(op[2] & 1)
                    late = 0x00E3
                elif op[1] == 2 and profile["rate"]:
                    vals = RATES2 if profile["rate"] == 2 else RATES5
                    ac.rate_select = AC.RateSelect(vals[op[2] % len(vals)])
                    cv["rate"] = vals[op[2] % len(vals)]
                    late = 0x0048
                await task
                w = m.prop_writes[mark:]
                written = set()
                for x in w:
                    written |= {p for p, _v in x}
                written.discard(0x001A)
                if not before <= written and before:
                    fail("apply/concurrent-lost", f"apply with a concurrent setter did not write the pending properties {sorted(hex(p) for p in before)}: wrote {sorted(hex(p) for p in written)}")
                pending.clear()
                if late is not None and late not in written:
                    pending.add(late)          # not sent by this apply: it must go out with the next one
                elif late is not None and late in written and len(w) == 1:
                    # sent in this apply: the value on the wire must be the late one or the earlier one re-sent later
                    pass
                dv = device_view()
                for key in ("ud", "lr", "rate", "ieco", "breeze"):
                    if key in dv and not (late is not None and late in pending and key == {0x0009: "ud", 0x00E3: "ieco", 0x0048: "rate"}.get(late)):
                        cv[key] = dv[key] if w else cv[key]
            elif k == "apply_cancelled_early" and pending:
                # the unit answers the state command and hangs up; the reconnect that the property write needs hangs, and the caller
                # gives up there: nothing of the property write was transmitted, so the next apply() still owes it (checked by the
                # `apply` operation that follows in the history)
                import asyncio
                mark = len(m.prop_writes)

                def hang_after_state(dev_, conn, frame):
                    try:
                        is_state = rc.frame_parse(frame).body[0] == 0x40
                    except Exception:
                        is_state = False
                    if is_state:
                        dev_.connect_script = ["hang"] * 3
                        return ("answer", {"then": "fin"})
                    return None
                dev.on_data = hang_after_state
                task = asyncio.ensure_future(ac.apply())
                await asyncio.sleep(0.5 + 0.1 * op[1])
                task.cancel()
                try:
                    await task
                except asyncio.CancelledError:
                    pass
                finally:
                    dev.on_data = None
                    dev.connect_script.clear()
                if m.prop_writes[mark:]:
                    fail("apply/cancelled-early-write", "a property write reached the unit although the connection for it never came up")
                # (the state command was received and answered: the client's state values follow the unit as after any apply)
            elif k == "apply_cancelled_early":
                await ac.apply()
            elif k == "apply_cancelled" and not pending:
                await ac.apply()
            elif k == "apply_cancelled":
                # the caller gives up (wait_for timeout / task cancelled) while the property write is on the wire: the device has
                # received it, so it was transmitted; the following apply() without a setter call must not send it again
                import asyncio
                mark = len(m.prop_writes)
                loop_ = asyncio.get_running_loop()
                task = asyncio.ensure_future(ac.apply())
                seen = {"n": 0}

                def on_write(dev_, conn, frame):
                    try:
                        is_prop = rc.frame_parse(frame).body[0] == 0xB0
                    except Exception:
                        is_prop = False
                    if is_prop and not seen["n"]:
                        seen["n"] = 1
                        loop_.call_later(0.001 + 0.01 * op[1], task.cancel)
                    return None
                dev.on_data = on_write
                try:
                    await task
                except asyncio.CancelledError:
                    pass
                finally:
                    dev.on_data = None
                await asyncio.sleep(1.0)
                w = m.prop_writes[mark:]
                if len(w) != 1:
                    fail("apply/cancelled-write-count", f"{len(w)} property writes during an apply() cancelled after its property write was sent")
                pending.clear()
                dv = device_view()
                for key in ("ud", "lr", "rate", "ieco", "breeze"):
                    if key in dv:
                        cv[key] = dv[key]
            elif k in ("apply", "apply_lossy", "apply_cutack"):
                mark = len(m.prop_writes)
                nstate = len(m.control_bodies)
                if k == "apply_cutack":
                    # the unit executes the property write; its acknowledgement arrives cut short inside a record (checksum valid)
                    def cutack(dev_, conn, frame, how=op[1]):
                        try:
                            is_prop = rc.frame_parse(frame).body[0] == 0xB0
                        except Exception:
                            is_prop = False
                        if not is_prop:
                            return None
                        outp = m.handle(frame)
                        if not outp:
                            return ("frames", [], {})
                        p_ = rc.frame_parse(outp[0])
                        body = p_.body[:-1]
                        # (records are id(2) result(1) size(1) value(size): cut after the first record's size byte, inside its header, in
                        # the second record's header, or one byte before the end)
                        first = 6 + (body[5] if len(body) > 5 else 0)
                        cut = body[:[6, 5, min(len(body) - 1, first + 4), len(body) - 1][how % 4]]
                        short = rc.frame_build(p_.frame_type, cut, proto=p_.proto)
                        m.response_hook_once = None
                        return ("raw", dev_.wrap(conn, short))
                    dev.on_data = cutack
                if k == "apply_lossy":
                    # the device executes the state command but its reply gets lost (or arrives corrupted)
                    def lossy(dev_, conn, frame, how=op[1]):
                        try:
                            is_state = rc.frame_parse(frame).body[0] == 0x40
                        except Exception:
                            is_state = False
                        if not is_state:
                            return None
                        if how == 0:
                            return ("frames", [], {})
                        bad = bytearray(m.state_frame(0x02))
                        bad[12] ^= 0xFF
                        return ("frames", [bytes(bad)], {})
                    dev.on_data = lossy
                try:
                    await ac.apply()
                finally:
                    dev.on_data = None
                w = m.prop_writes[mark:]
                if len({bytes(b) for b in m.control_bodies[nstate:]}) != 1:
                    fail("apply/no-state-command", "apply did not send exactly one 0x40 command")
                if not pending:
                    if w:
                        fail("apply/spurious-write", f"apply with no changed property wrote {[[(hex(p), v.hex()) for p, v in x] for x in w]}")
                else:
                    want = {0x001A: bytes([1 if beep else 0])}
                    for pid in pending:
                        if pid == 0x0009:
                            want[pid] = bytes([cv["ud"]])
                        elif pid == 0x000A:
                            want[pid] = bytes([cv["lr"]])
                        elif pid == 0x0048:
                            want[pid] = bytes([cv["rate"]])
                        elif pid == 0x0043:
                            want[pid] = bytes([cv["breeze"]])
                        elif pid == 0x0042:
                            want[pid] = bytes([2 if cv["breeze"] == 2 else 1])
                        elif pid == 0x0018:
                            want[pid] = bytes([1 if cv["breeze"] == 4 else 0])
                        elif pid == 0x00E3:
                            want[pid] = bytes([0, 1, 1 if cv["ieco"] else 0]) + bytes(10)
                    if len(w) != 1:
                        fail("apply/write-count", f"{len(w)} property writes in one apply, pending {sorted(hex(p) for p in pending)}")
                    elif dict(w[0]) != want or len(w[0]) != len(want):
                        fail("apply/write-content", f"wrote {[(hex(p), v.hex()) for p, v in w[0]]}, expected {[(hex(p), v.hex()) for p, v in sorted(want.items())]}")
                    pending.clear()
                    # the device answered with its stored values; client values follow the device (as after a refresh)
                dv = device_view()
                if w:
                    for key in ("ud", "lr", "rate", "ieco", "breeze"):
                        if key in dv:
                            cv[key] = dv[key]
            elif k == "refresh":
                await ac.refresh()
                dv = device_view()
                if not ac.online:
                    fail("refresh/offline", "refresh against a responsive device left it offline")
                got = {"ud": int(ac.vertical_swing_angle), "lr": int(ac.horizontal_swing_angle), "rate": int(ac.rate_select),
                       "ieco": ac.ieco, "clean": ac.self_clean_active,
                       "breeze": 2 if ac.breeze_away else (3 if ac.breeze_mild else (4 if ac.breezeless else 1))}
                for key, val in dv.items():
                    if key.startswith("_"):
                        continue
                    if got[key] != val:
                        fail(f"readback/{key}", f"{key}: attribute {got[key]!r} after refresh, device stores {val!r} (profile breeze={b})")
                for key in ("ud", "lr", "rate", "ieco", "breeze"):
                    if key in dv:
                        cv[key] = dv[key]
            check_breeze_exclusive(f"after {op}")
        res["rejected"] = list(m.rejected)
        ac._lan._disconnect()

    vloop.run(main, net)
    if res["v"]:
        return res["v"]
    if res.get("rejected"):
        return ("device-rejects", f"model device rejected a frame: {res['rejected'][0][1]}")
    return None


def replay(ctx, case):
    if "cli" in case:
        from . import c20
        v = c20.check_case(case["cli"])
        return None if v is None else ("cli/" + v[0], v[1])
    return check_case(case)


def _nt(case) -> bool:
    ops = [o[0] for o in case["ops"]]
    setters = {"ud", "lr", "rate", "away", "mild", "breezeless", "ieco"}
    applies = [i for i, o in enumerate(ops) if o == "apply"]
    if len(applies) < 2:
        return False
    for a, b in zip(applies, applies[1:]):
        if any(o in setters for o in ops[a + 1:b]) and "refresh" in ops[b:]:
            return True
    return False


def _run_one(ctx, case):
    import json
    nt = _nt(case)
    ctx.case(hash(json.dumps(case, sort_keys=True)), nt, cls=f"breeze={case['profile']['breeze']}/rate={case['profile']['rate']}")
    ctx.sample(f"breeze={case['profile']['breeze']}" + ("/nt" if nt else ""), case)
    return check_case(case)


def profiles():
    return st.fixed_dictionaries({"breeze": st.sampled_from(["control", "control", "away", "breezeless", "both", "none"]),
                                  "rate": st.sampled_from([0, 2, 5]), "rate5_code": st.sampled_from([2, 3]), "ieco": st.booleans(),
                                  "self_clean": st.booleans(), "ud": st.booleans(), "lr": st.booleans(), "legacy_too": st.booleans()})


def ops_strategy(max_len: int):
    op = st.one_of(
        st.tuples(st.just("ud"), st.sampled_from(ANGLES)), st.tuples(st.just("lr"), st.sampled_from(ANGLES)),
        st.tuples(st.just("rate"), st.integers(0, 5)),
        st.tuples(st.just("away"), st.booleans()), st.tuples(st.just("mild"), st.booleans()), st.tuples(st.just("breezeless"), st.booleans()),
        st.tuples(st.just("ieco"), st.booleans()), st.tuples(st.just("beep"), st.booleans()), st.tuples(st.just("setting"), st.integers(0, 60)),
        st.tuples(st.just("clean")), st.tuples(st.just("apply")), st.tuples(st.just("apply")), st.tuples(st.just("refresh")),
        st.tuples(st.just("apply_lossy"), st.integers(0, 1)), st.tuples(st.just("apply_cutack"), st.integers(0, 3)),
        st.tuples(st.just("apply_concurrent"), st.integers(0, 2), st.integers(0, 7)),
        st.tuples(st.just("apply_cancelled"), st.integers(0, 3)), st.tuples(st.just("apply_cancelled_early"), st.integers(0, 3)),
        st.tuples(st.just("remote"), st.sampled_from([0x0009, 0x000A, 0x0048, 0x0043, 0x0042, 0x0018, 0x00E3, 0x0039]), st.integers(0, 7)),
    ).map(list)
    free = st.lists(op, min_size=1, max_size=max_len)
    setter = op.filter(lambda o: o[0] not in ("apply", "refresh"))
    rnd_ = st.tuples(st.lists(setter, min_size=0, max_size=3), st.booleans()).map(lambda t: t[0] + [["apply"]] + ([["refresh"]] if t[1] else []))
    rounds = st.lists(rnd_, min_size=2, max_size=max(2, max_len // 4)).map(lambda rs: [o for r in rs for o in r][:max_len] + [["refresh"]])
    return st.one_of(free, rounds, rounds)


def run(ctx) -> None:
    # deterministic seeds: each setter once, on each profile family, followed by apply + refresh + apply
    n = 0
    for breeze in ("control", "away", "breezeless", "both", "none"):
        for rate in (0, 2, 5):
            prof = {"breeze": breeze, "rate": rate, "rate5_code": 2 + n % 2, "ieco": True, "self_clean": True, "ud": True, "lr": True, "legacy_too": n % 2 == 0}
            scripts = []
            for setter in (["ud", 50], ["lr", 100], ["rate", 1], ["rate", 2], ["away", True], ["away", False], ["mild", True], ["breezeless", True],
                           ["breezeless", False], ["ieco", True], ["ieco", False], ["clean"], ["beep", True]):
                scripts.append([setter, ["apply"], ["refresh"], ["apply"], ["refresh"]])
                scripts.append([setter, ["apply_lossy", len(scripts) % 2], ["refresh"], ["apply"], ["refresh"]])
                scripts.append([setter, ["apply_cutack", len(scripts) % 4], ["apply"], ["refresh"], ["apply"], ["refresh"]])
                scripts.append([setter, ["apply_concurrent", len(scripts) % 3, len(scripts) % 5], ["apply"], ["refresh"], ["apply"]])
                scripts.append([setter, ["apply_cancelled", len(scripts) % 4], ["apply"], ["refresh"], ["apply"]])
                scripts.append([setter, ["apply_cancelled_early", len(scripts) % 4], ["apply"], ["refresh"], ["apply"], ["refresh"]])
                scripts.append([["setting", len(scripts) % 61], ["apply"], setter, ["apply"], ["refresh"], ["setting", (len(scripts) * 7) % 61], setter, ["apply"], ["refresh"]])
                scripts.append([["breezeless", True], ["apply"], setter, ["apply"], ["refresh"], ["remote", 0x0042, 1], ["refresh"], ["remote", 0x0018, 1], ["refresh"]])
            scripts.append([["away", True], ["breezeless", True], ["apply"], ["refresh"], ["away", True], ["apply"], ["refresh"], ["breezeless", False], ["apply"], ["refresh"]])
            # a mode switched on through the library is switched off at the unit (remote control): refresh follows the unit, and the
            # next apply - no setter was called - writes nothing
            for setter, pid, off in ((["away", True], 0x0042, 0), (["breezeless", True], 0x0018, 0), (["mild", True], 0x0043, 0), (["ieco", True], 0x00E3, 0),
                                     (["ud", 50], 0x0009, 0), (["rate", 1], 0x0048, 0)):
                scripts.append([setter, ["apply"], ["refresh"], ["remote", pid, off], ["refresh"], ["apply"], ["refresh"], ["setting", 7], ["apply"], ["refresh"]])
                scripts.append([setter, ["apply"], ["remote", pid, off], ["refresh"], ["refresh"], ["apply"]])
            for s in scripts:
                n += 1
                if ctx.mine(n):
                    case = {"profile": prof, "ops": s}
                    if n % 3 == 0:
                        case["hangup"] = ["fin", "rst", "fin_same", "rst_same"][(n // 3) % 4]
                    ctx.check(case, lambda c: _run_one(ctx, c))
    ctx.sweep("each setter x profile family scripts", n, True)
    # the command line front end as a caller of the setters: pairs of breeze settings written in either order (only the last one
    # switched on, or both off) reach the unit as the documented meaning of the line
    import itertools
    from . import c20
    cl = 0
    for a, b_ in itertools.permutations(["breeze_away", "breeze_mild", "breezeless"], 2):
        for va, vb in ((False, True), (False, False)):
            for caps in (False, True):
                cl += 1
                if ctx.mine(cl):
                    ccase = c20._mk_valid([((a, "bool", va), f"{a}={int(va)}"), ((b_, "bool", vb), f"{b_}={int(vb)}")], c20.DEFAULT_INITIAL, caps, 2, False, cl % 2 == 0)
                    ctx.case(hash(("cli", a, b_, va, vb, caps)), True, cls="cli breeze pairs")
                    ctx.sample("cli", ccase)
                    ctx.check({"cli": ccase}, lambda c: (lambda v: None if v is None or v[0].startswith("late-report") or "after-display-toggle" in v[0] else ("cli/" + v[0], v[1]))(c20.check_case(c["cli"])))
    ctx.sweep("breeze setting pairs through the command line front end x order x --capabilities", cl, True)
    cases = st.fixed_dictionaries({"profile": profiles(), "ops": ops_strategy(25 if ctx.quick else 40)},
                                  optional={"hangup": st.sampled_from(["fin", "rst", "fin_same", "rst_same"])})
    ctx.hyp("histories", cases, lambda c: _run_one(ctx, c), ctx.n(3200, 160000))
