"""Model NetHome Plus cloud: an httpx.MockTransport handler that verifies every request the way a conforming
server would (signature recomputed from the received fields, login id / password derivation / session id)
and records every check that fails.  Nothing here imports ``msmart``."""
from __future__ import annotations

import hashlib
import json
import re
from typing import Optional
from urllib.parse import parse_qsl, urlsplit

import httpx

APP_KEY = "3742e9e5842d4ad59c2db887e12449f9"       # NetHome Plus app key (public constant)
APP_ID = "1017"
HOST = "mapp.appsmb.com"


def creds_for(udpid: str) -> tuple:
    """Deterministic token/key a cloud hands out for a udpid (as hex strings, upper case like the real service)."""
    token = hashlib.sha512(b"token for " + udpid.encode()).hexdigest().upper()
    key = hashlib.sha256(b"key for " + udpid.encode()).hexdigest().upper()
    return token, key


class ModelCloud:
    def __init__(self, accounts: dict) -> None:
        self.accounts = accounts                 # account -> password
        self.login_ids: dict = {}                # account -> issued login id
        self.sessions: dict = {}                 # session id -> account
        self.requests: list = []                 # (path, fields)
        self.errors: list = []                   # verification failures (the oracle)
        self.posts: dict = {}                    # path -> number of POSTs seen
        self.fault_script: dict = {}             # path -> list of faults consumed per POST: ok|timeout|http<status>|connect|api:<code>
        self.tokenlists: dict = {}               # udpid -> explicit token list (else a single matching entry)
        self.shuffle = 0
        self.known = None                        # if a set: only these udpids are registered (strict cloud) ...
        self.unknown_mode = "api"                # ... others get an API error ("api") or a token list without them ("empty")
        self._n = 0
        self.latency = 0.05          # every round trip takes (virtual) time: other tasks run meanwhile
        self.timeout_after = 10.0    # a request that times out does so after the client's 10 s budget

    # -- client factory for msmart's get_async_client parameter
    def client_factory(self):
        def factory(*a, **kw):
            return httpx.AsyncClient(transport=httpx.MockTransport(self.handle_async))
        return factory

    def logical_path(self, request: httpx.Request) -> str:
        return urlsplit(str(request.url)).path

    async def handle_async(self, request: httpx.Request) -> httpx.Response:
        import asyncio
        script = self.fault_script.get(self.logical_path(request))
        if script and script[0] == "timeout":
            await asyncio.sleep(self.timeout_after)
        elif self.latency:
            await asyncio.sleep(self.latency)
        return self.handle(request)

    def _json(self, result: Optional[dict], code: int = 0, msg: str = "ok") -> httpx.Response:
        body = {"errorCode": str(code), "msg": msg}
        if result is not None:
            body["result"] = result
        items = list(body.items())
        if self.shuffle % 2:
            items.reverse()
        return httpx.Response(200, text=json.dumps(dict(items)))

    def _bad(self, path: str, why: str) -> None:
        self.errors.append(f"{path}: {why}")

    def handle(self, request: httpx.Request) -> httpx.Response:
        url = urlsplit(str(request.url))
        path = url.path
        self.posts[path] = self.posts.get(path, 0) + 1
        # scripted transport / server faults come first (a real server would not even see those requests)
        script = self.fault_script.get(path)
        fault = script.pop(0) if script else "ok"
        if fault == "timeout":
            raise httpx.ReadTimeout("simulated timeout", request=request)
        if fault == "connect":
            raise httpx.ConnectError("simulated connect failure", request=request)
        if fault.startswith("http"):
            # http<status>, optionally with a JSON body as gateways and proxies send them: "j" = an error document that is not
            # the API's, "k" = a document shaped like the API's success answer (the status still says the request failed)
            code, kind = (int(fault[4:7]), fault[7:])
            if kind == "j":
                return httpx.Response(code, json={"error": "bad gateway", "status": code})
            if kind == "k":
                return httpx.Response(code, headers={"content-type": "application/json"}, text=self._json({"tokenlist": [], "loginId": "x", "sessionId": "y"}).text)
            return httpx.Response(code, text="simulated http status")
        # verify the request like a conforming server
        if request.method != "POST":
            self._bad(path, f"method {request.method}")
        if url.netloc != HOST or url.scheme != "https":
            self._bad(path, f"endpoint {url.scheme}://{url.netloc}")
        ctype = request.headers.get("content-type", "")
        if "application/x-www-form-urlencoded" not in ctype:
            self._bad(path, f"content type {ctype}")
        pairs = parse_qsl(request.content.decode("ascii", "replace"), keep_blank_values=True)
        fields = dict(pairs)
        if len(fields) != len(pairs):
            self._bad(path, "duplicate form fields")
        self.requests.append((path, dict(fields)))
        sign = fields.pop("sign", None)
        query = "&".join(f"{k}={v}" for k, v in sorted(fields.items()))
        want = hashlib.sha256((path + query + APP_KEY).encode("ascii", "replace")).hexdigest()
        if sign != want:
            self._bad(path, "signature does not match the received fields")
        for k, v in (("appId", APP_ID), ("src", APP_ID), ("format", "2"), ("clientType", "1"), ("language", "en_US")):
            if fields.get(k) != v:
                self._bad(path, f"constant field {k}={fields.get(k)!r}")
        if not re.fullmatch(r"\d{14}", fields.get("stamp", "")):
            self._bad(path, f"stamp {fields.get('stamp')!r}")
        if not fields.get("deviceId"):
            self._bad(path, "deviceId missing")
        if fault.startswith("api:"):
            return self._json(None, int(fault[4:]), "simulated api error")
        self._n += 1
        if path == "/v1/user/login/id/get":
            acct = fields.get("loginAccount")
            if acct not in self.accounts:
                return self._json(None, 3101, "account not found")
            lid = hashlib.md5(f"login id {self._n} {acct}".encode()).hexdigest()
            self.login_ids.setdefault(acct, []).append(lid)      # (every id issued for the account stays usable: two clients may log in at once)
            return self._json({"loginId": lid})
        if path == "/v1/user/login":
            acct = fields.get("loginAccount")
            lids = self.login_ids.get(acct)
            if not lids:
                self._bad(path, "login without a login id issued for this account")
                return self._json(None, 3102, "no login id")
            pw = self.accounts.get(acct, "")
            want_pws = [hashlib.sha256((lid + hashlib.sha256(pw.encode("ascii", "replace")).hexdigest() + APP_KEY).encode("ascii")).hexdigest() for lid in lids]
            if fields.get("password") not in want_pws:
                self._bad(path, "password derivation does not match the issued login id")
                return self._json(None, 3102, "invalid password")
            sid = hashlib.md5(f"session {self._n} {acct}".encode()).hexdigest()
            self.sessions[sid] = acct
            return self._json({"sessionId": sid, "userId": "1234", "accessToken": "x"})
        if path == "/v1/iot/secure/getToken":
            if fields.get("sessionId") not in self.sessions:
                self._bad(path, f"session id {fields.get('sessionId')!r} was not issued by login")
                return self._json(None, 3106, "invalid session")
            udpid = fields.get("udpid", "")
            if not re.fullmatch(r"[0-9a-f]{32}", udpid):
                self._bad(path, f"udpid {udpid!r}")
            if self.known is not None and udpid not in self.known:
                if self.unknown_mode == "api":
                    return self._json(None, 3004, "value is illegal")
                return self._json({"tokenlist": []})
            if udpid in self.tokenlists:
                lst = self.tokenlists[udpid]
            else:
                t, k = creds_for(udpid)
                lst = [{"udpId": udpid, "token": t, "key": k}]
            return self._json({"tokenlist": lst})
        self._bad(path, "unknown endpoint")
        return httpx.Response(404, text="unknown")


# ---------------------------------------------------------------------------------------------------------------------
# MSmartHome cloud ("mp-prod" proxy API), as documented by the public re-implementations (midea-local,
# midea-beautiful-air): JSON body posted to /mas/v5/app/proxy?alias=<endpoint>; header sign =
# HMAC-SHA256(key "PROD_VnoClJI9aikS8dyy", "meicloud" + body + random); login carries password =
# sha256(loginId + sha256(pw) + loginKey) and iampwd = sha256(loginId + md5(md5(pw)) + loginKey); later requests
# carry the issued access token in the accessToken header.

import hmac as _hmac

SH_HOST = "mp-prod.appsmb.com"
SH_HMAC_KEY = "PROD_VnoClJI9aikS8dyy"
SH_IOT_KEY = "meicloud"
SH_LOGIN_KEY = "ac21b9f9cbfe4ca5a88562ef25e2b768"
SH_APP_ID = "1010"


class ModelSmartHome(ModelCloud):
    def __init__(self, accounts: dict) -> None:
        super().__init__(accounts)
        self.access_tokens: dict = {}            # access token -> account

    def logical_path(self, request: httpx.Request) -> str:
        url = urlsplit(str(request.url))
        return dict(parse_qsl(url.query)).get("alias", url.path)

    def _json(self, result: Optional[dict], code: int = 0, msg: str = "ok") -> httpx.Response:
        body = {"code": code if self.shuffle % 2 else str(code), "msg": msg}
        if result is not None:
            body["data"] = result
        items = list(body.items())
        if self.shuffle % 2:
            items.reverse()
        return httpx.Response(200, text=json.dumps(dict(items)))

    def handle(self, request: httpx.Request) -> httpx.Response:
        url = urlsplit(str(request.url))
        path = self.logical_path(request)
        self.posts[path] = self.posts.get(path, 0) + 1
        script = self.fault_script.get(path)
        fault = script.pop(0) if script else "ok"
        if fault == "timeout":
            raise httpx.ReadTimeout("simulated timeout", request=request)
        if fault == "connect":
            raise httpx.ConnectError("simulated connect failure", request=request)
        if fault.startswith("http"):
            # http<status>, optionally with a JSON body as gateways and proxies send them: "j" = an error document that is not
            # the API's, "k" = a document shaped like the API's success answer (the status still says the request failed)
            code, kind = (int(fault[4:7]), fault[7:])
            if kind == "j":
                return httpx.Response(code, json={"error": "bad gateway", "status": code})
            if kind == "k":
                return httpx.Response(code, headers={"content-type": "application/json"}, text=self._json({"tokenlist": [], "loginId": "x", "sessionId": "y"}).text)
            return httpx.Response(code, text="simulated http status")
        if request.method != "POST":
            self._bad(path, f"method {request.method}")
        if url.netloc != SH_HOST or url.scheme != "https" or url.path != "/mas/v5/app/proxy":
            self._bad(path, f"endpoint {url.scheme}://{url.netloc}{url.path}")
        if "application/json" not in request.headers.get("content-type", ""):
            self._bad(path, f"content type {request.headers.get('content-type')}")
        raw = request.content.decode("ascii", "replace")
        rnd = request.headers.get("random", "")
        want = _hmac.new(SH_HMAC_KEY.encode(), (SH_IOT_KEY + raw + rnd).encode("ascii", "replace"), hashlib.sha256).hexdigest()
        if request.headers.get("sign") != want:
            self._bad(path, "signature does not match the received body and random header")
        if request.headers.get("secretversion") != "1":
            self._bad(path, f"secretVersion {request.headers.get('secretversion')!r}")
        try:
            body = json.loads(raw)
        except ValueError:
            self._bad(path, "body is not JSON")
            return httpx.Response(400, text="bad json")
        self.requests.append((path, dict(body) if isinstance(body, dict) else {}))
        if fault.startswith("api:"):
            return self._json(None, int(fault[4:]), "simulated api error")
        self._n += 1
        if path == "/v1/user/login/id/get":
            self._common(path, body)
            acct = body.get("loginAccount")
            if acct not in self.accounts:
                return self._json(None, 3101, "account not found")
            lid = hashlib.md5(f"sh login id {self._n} {acct}".encode()).hexdigest()
            self.login_ids.setdefault(acct, []).append(lid)
            return self._json({"loginId": lid})
        if path == "/mj/user/login":
            iot = body.get("iotData") or {}
            data = body.get("data") or {}
            if not data.get("deviceId") or str(data.get("platform")) != "2":
                self._bad(path, f"data section {data}")
            self._common(path, dict(iot, deviceId=data.get("deviceId"), format=2, language="en_US"), need_lang=False)
            acct = iot.get("loginAccount")
            lids = self.login_ids.get(acct)
            if not lids:
                self._bad(path, "login without a login id issued for this account")
                return self._json(None, 3102, "no login id")
            pw = self.accounts.get(acct, "")
            md2 = hashlib.md5(hashlib.md5(pw.encode("ascii", "replace")).hexdigest().encode("ascii")).hexdigest()
            pairs = [(hashlib.sha256((lid + hashlib.sha256(pw.encode("ascii", "replace")).hexdigest() + SH_LOGIN_KEY).encode("ascii")).hexdigest(),
                      hashlib.sha256((lid + md2 + SH_LOGIN_KEY).encode("ascii")).hexdigest()) for lid in lids]
            match = [p_ for p_ in pairs if p_[0] == iot.get("password")]
            want_pw, want_iam = match[0] if match else pairs[-1]
            if iot.get("password") != want_pw:
                self._bad(path, "password derivation does not match the issued login id")
                return self._json(None, 3102, "invalid password")
            if iot.get("iampwd") != want_iam:
                self._bad(path, "iampwd derivation does not match the issued login id")
                return self._json(None, 3102, "invalid password")
            if not iot.get("pushToken"):
                self._bad(path, "pushToken missing")
            tok = hashlib.md5(f"sh access {self._n} {acct}".encode()).hexdigest()
            self.access_tokens[tok] = acct
            return self._json({"mdata": {"accessToken": tok, "tokenPwdInfo": {}}, "uid": "1234", "key": "k"})
        if path == "/v1/iot/secure/getToken":
            self._common(path, body)
            if request.headers.get("accesstoken") not in self.access_tokens:
                self._bad(path, f"access token {request.headers.get('accesstoken')!r} was not issued by login")
                return self._json(None, 40004, "invalid access token")
            udpid = body.get("udpid", "")
            if not re.fullmatch(r"[0-9a-f]{32}", udpid):
                self._bad(path, f"udpid {udpid!r}")
            if self.known is not None and udpid not in self.known:
                return self._json({"tokenlist": []})
            if udpid in self.tokenlists:
                lst = self.tokenlists[udpid]
            else:
                t, k = creds_for(udpid)
                lst = [{"udpId": udpid, "token": t, "key": k}]
            return self._json({"tokenlist": lst})
        self._bad(path, "unknown endpoint")
        return httpx.Response(404, text="unknown")

    def _common(self, path: str, fields: dict, need_lang: bool = True) -> None:
        for k, v in (("appId", SH_APP_ID), ("src", SH_APP_ID), ("clientType", "1")):
            if str(fields.get(k)) != v:
                self._bad(path, f"constant field {k}={fields.get(k)!r}")
        if not re.fullmatch(r"\d{14}", str(fields.get("stamp", ""))):
            self._bad(path, f"stamp {fields.get('stamp')!r}")
        if not re.fullmatch(r"[0-9a-f]{32}", str(fields.get("reqId", ""))):
            self._bad(path, f"reqId {fields.get('reqId')!r}")
        if not fields.get("deviceId"):
            self._bad(path, "deviceId missing")
