"""Simulated UDP neighbourhood for discovery (C17, C18, C19)."""
from __future__ import annotations

from typing import Optional

from . import refcodec as rc

BROADCAST = "255.255.255.255"


class UdpWorld:
    """Hosts answer the well-known probe (verified independently) arriving on their own port."""

    def __init__(self, net, hosts: list, routes: dict = None) -> None:
        self.net = net
        self.hosts = hosts              # dicts: ip, listen_port, replies [(delay, src_port, bytes)]
        self.routes = routes or {}      # other targets that reach hosts: host name or directed broadcast -> [ips]
        self.probes_seen: list = []
        self.bad_probes = 0
        self.send_error_ports: set = set()   # sendto() to these ports fails locally (firewall rule, no route): the OS error is
                                             # reported to the protocol's error_received(), as asyncio's datagram transport does
        net.udp_handler = self.on_datagram

    def on_datagram(self, tr, data: bytes, addr) -> None:
        target, port = addr
        if port in self.send_error_ports:
            if not tr.is_closing():
                tr._protocol.error_received(OSError(1, "Operation not permitted"))
            return
        ok = rc.probe_ok(data)
        self.probes_seen.append((self.net.loop.time(), target, port, ok))
        if not ok:
            self.bad_probes += 1
            return
        for h in self.hosts:
            if target not in (BROADCAST, h["ip"]) and h["ip"] not in self.routes.get(target, ()):
                continue
            if port != h.get("listen_port", 6445):
                continue
            if h.get("_triggered"):
                continue
            h["_triggered"] = True
            for delay, sport, payload in h["replies"]:
                self.net.loop.call_later(delay, tr.deliver, payload, (h["ip"], sport))


def host_name(tt: int, suffix: str, upper: bool = False) -> str:
    return "net_" + (f"{tt:02X}" if upper else f"{tt:02x}") + "_" + suffix


def good_reply(h: dict) -> bytes:
    info = rc.DiscoveryInfo(device_id=h["id"], ip=h.get("reported_ip", h["ip"]), port=h["port"], sn=h["sn"],
                            name=host_name(h["tt"], h["suffix"], h.get("upper", False)), version=h["version"],
                            extra=bytes.fromhex(h.get("extra", "")))
    return rc.discovery_reply(info, timestamp=bytes([0, 1, 2, 3, 4, 5, 24, 20]), message_id=bytes([1, 0, 0, 0]))


def envelope(body: bytes, version: int = 2, device_id: int = 0x010203040506) -> bytes:
    """A correctly signed/encrypted discovery envelope around an arbitrary plain body."""
    info = rc.DiscoveryInfo(device_id=device_id, ip="0.0.0.0", port=0, sn="0" * 32, name="", version=version)
    return rc.discovery_reply(info, body=body)


def bad_reply(kind: str, arg, ip: str = "10.0.0.66") -> bytes:
    """One malformed reply of the given class."""
    body_ok = rc.discovery_body(ip, 6444, "000000P0000000Q1F0C9D153F7B40000", "net_ac_F7B4", bytes(20))
    if kind == "random":
        return bytes.fromhex(arg)
    if kind == "random5a":
        return b"\x5a\x5a" + bytes.fromhex(arg)
    if kind == "random83":
        return b"\x83\x70" + bytes.fromhex(arg)
    if kind == "cut":
        return envelope(body_ok[:arg], 2 + arg % 2)
    if kind == "nonutf8_sn":
        b = bytearray(body_ok)
        b[8 + arg % 32] = 0xFF
        return envelope(bytes(b))
    if kind == "nonutf8_name":
        b = bytearray(body_ok)
        b[41 + arg % 11] = 0xC3 if arg % 2 else 0xFF
        if arg % 2:
            b[41 + 10] = 0xC3          # truncated multi-byte sequence at the end of the name
        return envelope(bytes(b))
    if kind == "name":
        name = ["netacF7B4", "net_", "net__x", "net_zz_F7B4", "_", "", "net_1g_x", "net"][arg % 8].encode()
        return envelope(body_ok[:40] + bytes([len(name)]) + name + bytes(10), 2 + arg % 2)
    if kind == "name_len":
        return envelope(body_ok[:40] + bytes([arg & 0xFF]) + b"net_ac_F7B4")
    if kind == "badpad":
        pkt = bytearray(envelope(body_ok))
        # re-encrypt a plaintext with broken PKCS#7 under the fixed key and re-sign
        plain = body_ok + bytes(-len(body_ok) % 16 or 16)
        ct = rc._V2.enc(plain)
        hdr = bytes(pkt[:4]) + bytes([(40 + len(ct) + 16) & 0xFF, (40 + len(ct) + 16) >> 8]) + bytes(pkt[6:40])
        p = hdr + ct
        return p + rc.v2_sign(p)
    if kind == "v3short":
        return (b"\x83\x70" + bytes([0, arg, 0x20, 0x0F, 0, 0]) + bytes(range(arg)))
    if kind == "xml":
        docs = ["<root/>", "<root><body/></root>", "<root><body><device/></body></root>",
                "<root><body><device port='abc'/></body></root>", "<root><body><device ip='1.2.3.4'/></body></root>",
                "<a><body><device port=''/></body></a>", "<root><body><device port='7'/></body></root>",
                "<root><body><device port='6444' apc_type='ac'/></body></root>",
                # ports no TCP stack accepts, and a V1 unit whose info port (6443: a V1InfoServer may listen there) answers
                "<root><body><device port='70000'/></body></root>", "<root><body><device port='-1'/></body></root>", "<root><body><device port='65536'/></body></root>",
                "<root><body><device port='6443'/></body></root>", "<root><body><device port='0'/></body></root>", "<root><body><device port=' 6443 '/></body></root>"]
        return docs[arg % len(docs)].encode()
    if kind == "empty":
        return b""
    raise ValueError(kind)


BAD_KINDS = ["random", "random5a", "random83", "cut", "nonutf8_sn", "nonutf8_name", "name", "name_len", "badpad", "v3short", "xml", "empty"]


class V1InfoServer:
    """TCP side of a legacy (V1, XML) unit: answers whatever the client sends on its info port with `reply` (or stays silent)."""

    def __init__(self, loop, reply: bytes, delay: float = 0.05, then: str = None) -> None:
        self.loop, self.reply, self.delay, self.then = loop, reply, delay, then
        self.requests: list = []

    def accept(self, transport):
        srv = self

        class _Conn:
            def data_received(self_inner, data: bytes) -> None:
                srv.requests.append(bytes(data))
                if srv.reply is not None:
                    transport.feed_later(srv.delay, srv.reply)
                    if srv.then:
                        transport.close_later(srv.delay + 1e-4, None)

            def client_closed(self_inner) -> None:
                pass
        return _Conn()
