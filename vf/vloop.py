"""Virtual-time asyncio event loop with an in-memory network.

The library under test reaches the outside world through exactly three loop services:
timers, ``create_connection`` and ``create_datagram_endpoint``.  ``VLoop`` owns all three, so
a 12 h authentication expiry costs nothing, every timeout is exact, and the harness decides
what each address does and how every byte stream is segmented.
"""
from __future__ import annotations

import asyncio
import datetime as _dt
import selectors
from typing import Any, Callable, Optional

EPOCH = _dt.datetime(2024, 1, 1, 0, 0, 0, tzinfo=_dt.timezone.utc)

# The loop whose clock drives VDatetime.now(); set by VLoop.__init__/run helpers
CURRENT: Optional["VLoop"] = None


class VirtualDeadlock(RuntimeError):
    """Nothing is ready and nothing is scheduled: the case would hang forever."""


class _VSelector(selectors.DefaultSelector):
    """A selector that never blocks: instead of waiting it advances the virtual clock."""

    loop: Optional["VLoop"] = None

    def select(self, timeout=None):
        loop = self.loop
        if loop is None:
            return []
        if timeout is None:
            raise VirtualDeadlock("virtual deadlock: nothing ready, nothing scheduled")
        if loop.tick:
            loop._vtime += loop.tick      # optional model of processing latency: every loop iteration takes a little time
        if timeout > 0:
            new = loop._vtime + timeout
            sched = loop._scheduled
            if sched and abs(sched[0]._when - new) < 1e-6:
                new = sched[0]._when
            loop._vtime = new
        return []


class VLoop(asyncio.SelectorEventLoop):
    def __init__(self, net: Optional["Net"] = None) -> None:
        sel = _VSelector()
        super().__init__(sel)
        sel.loop = self
        self._vtime = 0.0
        self._clock_resolution = 1e-6   # keeps timer comparisons exact for clocks up to ~1e9 s
        self.tick = 0.0
        self.wall_skew = 0.0
        self.net = net if net is not None else Net()
        self.net.loop = self
        self.callback_exceptions: list = []
        self.set_exception_handler(self._on_exception)
        global CURRENT
        CURRENT = self

    # -- clock
    def time(self) -> float:
        return self._vtime

    def wall_now(self, tz=None) -> _dt.datetime:
        return (EPOCH + _dt.timedelta(seconds=self._vtime + self.wall_skew)).astimezone(tz) if tz else \
            (EPOCH + _dt.timedelta(seconds=self._vtime + self.wall_skew)).replace(tzinfo=None)

    def _on_exception(self, loop, context) -> None:
        self.callback_exceptions.append(context)

    # -- network
    async def create_connection(self, protocol_factory, host=None, port=None, **kw):
        return await self.net.tcp_connect(self, protocol_factory, host, port)

    async def create_datagram_endpoint(self, protocol_factory, local_addr=None, remote_addr=None, **kw):
        return await self.net.udp_open(self, protocol_factory, local_addr)


class VDatetime(_dt.datetime):
    """datetime whose now() follows the virtual loop (installed as msmart.lan.datetime)."""

    @classmethod
    def now(cls, tz=None):
        loop = CURRENT
        if loop is None:
            return _dt.datetime.now(tz)
        base = EPOCH + _dt.timedelta(seconds=loop._vtime + loop.wall_skew)
        if tz is None:
            # what datetime.now() gives: the host's *local* wall clock (TZ / time.tzset()), naive.  Identical to UTC in
            # the sandbox's default zone; a case may choose another zone with ``host_timezone``.
            base = _dt.datetime.fromtimestamp(base.timestamp())
        else:
            base = base.astimezone(tz)
        return cls(base.year, base.month, base.day, base.hour, base.minute, base.second,
                   base.microsecond, tzinfo=base.tzinfo)


class FixedClock:
    """Stand-in for a loop when only the wall clock matters (codec level checks)."""

    def __init__(self, seconds_from_epoch: float = 0.0) -> None:
        self._vtime = seconds_from_epoch
        self.wall_skew = 0.0


def set_fixed_clock(seconds_from_epoch: float) -> None:
    global CURRENT
    CURRENT = FixedClock(seconds_from_epoch)


class _FakeSocket:
    def __init__(self) -> None:
        self.opts: list = []

    def setsockopt(self, *a) -> None:
        self.opts.append(a)


class MemTransport(asyncio.Transport):
    """Client side of an in-memory TCP connection."""

    def __init__(self, loop: VLoop, protocol, peername, conn_id: int) -> None:
        super().__init__()
        self._loop = loop
        self._protocol = protocol
        self._peername = peername
        self.conn_id = conn_id
        self._closing = False
        self._lost = False
        self.server = None          # object with data_received(bytes) / client_closed()
        self.bytes_written = 0
        self.opened_at = loop.time()
        self._inflight: list = []
        self._seq = 0
        self._last_when = 0.0
        self.half_closed = False    # the peer sent FIN and the protocol's eof_received() asked to keep the transport open
        self.deliver_type = getattr(loop.net, "deliver_type", bytes)

    # asyncio.Transport surface used by msmart
    def get_extra_info(self, name, default=None):
        if name == "peername":
            return self._peername
        if name == "socket":
            return _FakeSocket()
        return default

    def is_closing(self) -> bool:
        return self._closing

    def write(self, data) -> None:
        data = bytes(data)
        if self._closing:
            # real transports log and drop
            return
        self.bytes_written += len(data)
        if self.half_closed:
            # the peer is gone: the kernel takes the bytes, the peer's stack answers with a reset a moment later
            self._loop.call_later(0.001, self._reset_after_half_close)
            return
        if self.server is not None:
            self._loop.call_soon(self._deliver_to_server, data)

    def _deliver_to_server(self, data: bytes) -> None:
        if self.server is not None:
            self.server.data_received(data)

    def _reset_after_half_close(self) -> None:
        if self._closing:
            return
        self._closing = True
        self._loop.call_soon(self._call_lost, ConnectionResetError(104, "Connection reset by peer"))

    def close(self) -> None:
        if self._closing:
            return
        self._closing = True
        self._loop.call_soon(self._call_lost, None)
        if self.server is not None:
            self._loop.call_soon(self.server.client_closed)

    def abort(self) -> None:
        self.close()

    def _call_lost(self, exc) -> None:
        if self._lost:
            return
        self._lost = True
        try:
            self._protocol.connection_lost(exc)
        except Exception as e:  # as asyncio: log through the exception handler
            self._loop.call_exception_handler({"message": "connection_lost raised", "exception": e})

    # server side helpers
    def feed(self, data: bytes) -> None:
        """Deliver bytes from the peer to the client protocol (one TCP segment)."""
        if self._closing or self._lost or self.half_closed:
            return
        if self.deliver_type is not bytes:
            data = self.deliver_type(data)
        try:
            self._protocol.data_received(data)
        except Exception as e:
            # what selector_events does: fatal error -> force close
            self._loop.call_exception_handler({"message": "data_received raised", "exception": e,
                                               "transport": self, "protocol": self._protocol})
            self._closing = True
            self._loop.call_soon(self._call_lost, e)

    def feed_later(self, delay: float, data: bytes) -> None:
        """Schedule one segment; segments are delivered in (time, submission) order like a TCP stream
        (asyncio's timer heap is not FIFO for equal deadlines, so ordering is kept here)."""
        import heapq
        self._seq += 1
        # a TCP stream is ordered: bytes written later never overtake bytes written earlier
        when = max(self._loop.time() + max(0.0, delay), self._last_when)
        self._last_when = when
        heapq.heappush(self._inflight, (when, self._seq, data))
        self._loop.call_at(when, self._deliver_due)

    def _deliver_due(self) -> None:
        import heapq
        now = self._loop.time() + 1e-9
        while self._inflight and self._inflight[0][0] <= now:
            _w, _s, data = heapq.heappop(self._inflight)
            if isinstance(data, tuple):          # ("close", exc, same_pass)
                self.peer_close(data[1], same_pass=data[2])
            else:
                self.feed(data)

    def close_later(self, delay: float, exc: Optional[Exception] = None, same_pass: bool = False) -> None:
        """The peer's FIN (exc None) or RST, ordered behind the bytes already in flight.  ``same_pass``: the event loop
        learns of the data and of the end of the connection in one pass, so connection_lost() runs before any task woken
        by the data (what a loop does whose reader needs extra iterations, e.g. wait_for before Python 3.12)."""
        import heapq
        self._seq += 1
        when = max(self._loop.time() + max(0.0, delay), self._last_when)
        self._last_when = when
        heapq.heappush(self._inflight, (when, self._seq, ("close", exc, same_pass)))
        self._loop.call_at(when, self._deliver_due)

    def peer_close(self, exc: Optional[Exception] = None, same_pass: bool = False) -> None:
        """The peer closed (FIN) or reset (exc) the connection.  As asyncio's selector transport: on FIN the protocol's
        eof_received() decides; a false value closes the transport, a true value leaves it open for writing (half-closed)
        until a later write is answered with a reset."""
        if self._closing or self.half_closed:
            return
        if exc is None:
            try:
                keep_open = self._protocol.eof_received()
            except Exception as e:
                self._loop.call_exception_handler({"message": "eof_received raised", "exception": e,
                                                   "transport": self, "protocol": self._protocol})
                self._closing = True
                self._loop.call_soon(self._call_lost, e)
                return
            if keep_open:
                self.half_closed = True
                return
        self._closing = True
        if same_pass:
            self._call_lost(exc)
        else:
            self._loop.call_soon(self._call_lost, exc)


class MemDatagramTransport(asyncio.DatagramTransport):
    def __init__(self, loop: VLoop, protocol, net: "Net", local_addr) -> None:
        super().__init__()
        self._loop = loop
        self._protocol = protocol
        self._net = net
        self._closing = False
        self.sock = _FakeSocket()
        self.local_addr = local_addr
        self.sent: list = []
        self.refused_broadcasts = 0

    def get_extra_info(self, name, default=None):
        if name == "socket":
            return self.sock
        if name == "sockname":
            return self.local_addr
        return default

    def is_closing(self) -> bool:
        return self._closing

    def sendto(self, data, addr=None) -> None:
        if self._closing:
            return
        data = bytes(data)
        self.sent.append((data, addr))
        if addr and addr[0] == "255.255.255.255":
            import socket as _s
            if not any(len(o) >= 3 and o[0] == _s.SOL_SOCKET and o[1] == _s.SO_BROADCAST and o[2] for o in self.sock.opts):
                # the kernel refuses to send to the broadcast address from a socket without SO_BROADCAST (EACCES); asyncio's
                # datagram transport hands the error to the protocol
                self.refused_broadcasts += 1
                self._loop.call_soon(self._protocol.error_received, PermissionError(13, "Permission denied"))
                return
        self._loop.call_soon(self._net.udp_deliver, self, data, addr)

    def deliver(self, data: bytes, addr) -> None:
        if self._closing:
            return
        try:
            self._protocol.datagram_received(data, addr)
        except Exception as e:
            # asyncio: "Fatal read error on datagram transport" - the endpoint is closed, later datagrams are lost
            self._loop.call_exception_handler({"message": "datagram_received raised", "exception": e})
            self._closing = True
            self._loop.call_soon(self._protocol.connection_lost, e)

    def close(self) -> None:
        if self._closing:
            return
        self._closing = True
        self._loop.call_soon(self._protocol.connection_lost, None)

    def abort(self) -> None:
        self.close()


class Net:
    """The simulated network: TCP listeners by (ip, port), UDP responders, connect policies."""

    def __init__(self) -> None:
        self.loop: Optional[VLoop] = None
        self.tcp_hosts: dict = {}       # (ip, port) -> object with accept(transport) -> server handler
        self.connect_policy: Optional[Callable[[str, int], str]] = None
        self.udp_handler: Optional[Callable[[MemDatagramTransport, bytes, Any], None]] = None
        self.tcp_attempts: list = []    # (time, ip, port, outcome)
        self.udp_sent: list = []        # (time, data, addr)
        self.transports: list = []
        self._next_conn = 0
        self.resolver: dict = {}        # host name -> current IP address
        self.deliver_type = bytes       # type handed to data_received (bytes per the asyncio contract; bytearray on some loops)

    def listen(self, ip: str, port: int, host) -> None:
        self.tcp_hosts[(ip, port)] = host

    async def tcp_connect(self, loop: VLoop, factory, host, port):
        if not isinstance(port, int) or not 0 <= port <= 65535:
            # what loop.create_connection() does for an IP literal with such a port (raised by socket.connect)
            self.tcp_attempts.append((loop.time(), host, port, "overflow"))
            raise OverflowError("connect(): port must be 0-65535.")
        policy = "accept"
        host = self.resolver.get(host, host)        # name resolution happens on every connect, as in loop.create_connection
        target = self.tcp_hosts.get((host, port))
        if target is None:
            policy = "refuse"
        if self.connect_policy is not None:
            p = self.connect_policy(host, port)
            if p:
                policy = p
        if target is not None and hasattr(target, "connect_policy"):
            p = target.connect_policy()
            if p:
                policy = p
        self.tcp_attempts.append((loop.time(), host, port, policy))
        if policy == "refuse":
            await asyncio.sleep(0)
            raise ConnectionRefusedError(111, "Connect call failed", (host, port))
        if policy == "unreachable":
            await asyncio.sleep(0)
            raise OSError(113, "No route to host")
        if isinstance(policy, str) and policy.startswith("slow:"):
            await asyncio.sleep(float(policy[5:]))       # the TCP handshake takes this long, then succeeds
        if policy == "hang":
            await loop.create_future()   # never completes; caller's wait_for cancels it
        await asyncio.sleep(0)
        protocol = factory()
        self._next_conn += 1
        tr = MemTransport(loop, protocol, (host, port), self._next_conn)
        self.transports.append(tr)
        tr.server = target.accept(tr)
        protocol.connection_made(tr)
        return tr, protocol

    async def udp_open(self, loop: VLoop, factory, local_addr):
        protocol = factory()
        tr = MemDatagramTransport(loop, protocol, self, local_addr)
        self.transports.append(tr)
        protocol.connection_made(tr)
        return tr, protocol

    def udp_deliver(self, tr: MemDatagramTransport, data: bytes, addr) -> None:
        self.udp_sent.append((self.loop.time() if self.loop else 0.0, data, addr))
        if self.udp_handler is not None:
            self.udp_handler(tr, data, addr)


class VPolicy(asyncio.DefaultEventLoopPolicy):
    """Event loop policy whose new loops are VLoops (msmart.cli calls asyncio.run)."""

    def __init__(self, net_factory: Callable[[], Net], on_loop: Optional[Callable] = None) -> None:
        super().__init__()
        self._net_factory = net_factory
        self._on_loop = on_loop
        self.loops: list = []

    def new_event_loop(self):
        loop = VLoop(self._net_factory())
        self.loops.append(loop)
        if self._on_loop is not None:
            self._on_loop(loop)
        return loop


def run(coro_fn: Callable[[VLoop], Any], net: Optional[Net] = None, tick: float = 0.0):
    """Run ``coro_fn(loop)`` to completion on a fresh VLoop; returns (result, loop).

    The loop is closed afterwards; leftover pending tasks are cancelled and reported in
    ``loop.leftover``.
    """
    global CURRENT
    loop = VLoop(net)
    loop.tick = tick
    try:
        asyncio.set_event_loop(loop)
        result = loop.run_until_complete(coro_fn(loop))
        pending = [t for t in asyncio.all_tasks(loop) if not t.done()]
        loop.leftover = len(pending)
        for t in pending:
            t.cancel()
        if pending:
            try:
                loop.run_until_complete(asyncio.gather(*pending, return_exceptions=True))
            except VirtualDeadlock:
                pass
        _raise_harness_callback_errors(loop)
        return result, loop
    finally:
        try:
            asyncio.set_event_loop(None)
            loop.close()
        finally:
            CURRENT = None


class HarnessCallbackError(RuntimeError):
    """An exception escaped a callback of the harness itself (model device, simulated network): a harness defect that
    must not pass silently (the event loop would only log it)."""


def _raise_harness_callback_errors(loop) -> None:
    import os
    import traceback
    here = os.path.dirname(os.path.abspath(__file__)) + os.sep
    for ctx in loop.callback_exceptions:
        exc = ctx.get("exception")
        if exc is not None and type(exc).__name__ == "_CaseCpuLimit":
            raise exc            # the runner's processor-time guard fired inside a callback: let it judge where (original traceback kept)
        if exc is None or isinstance(exc, (asyncio.CancelledError, VirtualDeadlock)):
            continue
        frames = traceback.extract_tb(exc.__traceback__)
        if frames and os.path.abspath(frames[-1].filename).startswith(here):
            # raised by harness code (innermost frame is ours)
            raise HarnessCallbackError(f"{ctx.get('message')}: {exc!r} at {frames[-1].filename}:{frames[-1].lineno}") from exc


_INSTALLED = False


def install_clock() -> None:
    """Replace the datetime class used by msmart.lan / msmart.cloud with VDatetime."""
    global _INSTALLED
    if _INSTALLED:
        return
    import msmart.lan as lan
    import msmart.cloud as cloud
    lan.datetime = VDatetime
    cloud.datetime = VDatetime
    # the host's other clocks: while a virtual loop runs, time.monotonic() *is* the loop clock (as on a real loop) and
    # time.time() is the same wall clock VDatetime shows; outside a run they are the real ones
    import time as _time
    real_monotonic, real_time = _time.monotonic, _time.time
    mono_base = 1000.0

    def v_monotonic():
        loop = CURRENT
        if isinstance(loop, VLoop) and loop.is_running():
            return mono_base + loop._vtime
        return real_monotonic()

    def v_time():
        loop = CURRENT
        if isinstance(loop, VLoop) and loop.is_running():
            return EPOCH.timestamp() + loop._vtime + loop.wall_skew
        return real_time()

    def v_monotonic_ns():
        return int(v_monotonic() * 1e9)

    def v_time_ns():
        return int(v_time() * 1e9)
    _time.monotonic, _time.time, _time.monotonic_ns, _time.time_ns = v_monotonic, v_time, v_monotonic_ns, v_time_ns
    _INSTALLED = True


class host_timezone:
    """Context manager: the host's local time zone is ``tz`` (a POSIX TZ string, needs no tzdata) for the duration."""

    def __init__(self, tz: Optional[str]) -> None:
        self.tz = tz

    def __enter__(self):
        import os
        import time as _time
        self._old = os.environ.get("TZ")
        if self.tz is not None:
            os.environ["TZ"] = self.tz
            _time.tzset()
        return self

    def __exit__(self, *exc):
        import os
        import time as _time
        if self.tz is not None:
            if self._old is None:
                os.environ.pop("TZ", None)
            else:
                os.environ["TZ"] = self._old
            _time.tzset()
        return False


def seconds_from_epoch(year: int, month: int, day: int, hour: int = 0, minute: int = 0) -> float:
    """wall_skew that puts virtual time 0 at the given UTC instant."""
    return (_dt.datetime(year, month, day, hour, minute, tzinfo=_dt.timezone.utc) - EPOCH).total_seconds()
