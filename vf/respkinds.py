"""Valid response frames of every kind, produced by the model device, shared by C13/C14."""
from __future__ import annotations

from . import model_ac as M
from . import refcodec as rc
from .model_ac import ACState, ModelAC

KINDS = ["state", "state_sum", "caps", "props_b1", "props_b0", "energy", "humidity"]

S0 = ACState(power=True, mode=2, target=22.0, fan=80, swing=0x3, eco=True, strong_wind=False, tubro=False, sleep=False,
             fahrenheit=False, freeze=False, follow_me=False, purifier=True, humidity=35, ptc=False, independent_ptc=False,
             display_on=True, indoor_raw=0x5C, outdoor_raw=0x68, indoor_tenths=3, outdoor_tenths=0, filter_alert=False)
S1 = ACState(power=False, mode=4, target=28.5, fan=40, swing=0xC, eco=False, strong_wind=True, tubro=True, sleep=True,
             fahrenheit=True, freeze=True, follow_me=True, purifier=False, humidity=60, ptc=True, independent_ptc=False,
             display_on=False, indoor_raw=0x40, outdoor_raw=0x30, indoor_tenths=0, outdoor_tenths=7, filter_alert=True)

CAPS0 = [M.cap_record(0x0216, b"\x02"), M.cap_record(0x021F, b"\x02"), M.cap_record(0x0009, b"\x01"), M.cap_record(0x000A, b"\x01"),
         M.cap_record(0x0048, b"\x02"), M.cap_record(0x0043, b"\x01"), M.cap_record(0x00E3, b"\x01"), M.cap_record(0x0039, b"\x01"),
         M.cap_record(0x0214, b"\x01"), M.cap_record(0x0212, b"\x01")]
# a different capability set: if this were applied every capability attribute of the client would change
CAPS1 = [M.cap_record(0x0214, b"\x02"), M.cap_record(0x0215, b"\x01"), M.cap_record(0x0210, b"\x06"), M.cap_record(0x021A, b"\x02"),
         M.cap_record(0x0212, b"\x00"), M.cap_record(0x0213, b"\x01"), M.cap_record(0x0224, b"\x00"), M.cap_record(0x0217, b"\x00"),
         M.cap_record(0x021E, b"\x01"), M.cap_record(0x0225, bytes([40, 50, 41, 51, 42, 52, 1])), M.cap_record(0x0219, b"\x01"),
         M.cap_record(0x0042, b"\x01"), M.cap_record(0x0018, b"\x01")]

PROPS0 = {0x0009: b"\x19", 0x000A: b"\x32", 0x0048: b"\x28", 0x0043: b"\x02", 0x00E3: bytes([1, 0]) + bytes(10), 0x0039: b"\x00"}
PROPS1 = {0x0009: b"\x64", 0x000A: b"\x01", 0x0048: b"\x50", 0x0043: b"\x04", 0x00E3: bytes([1, 1]) + bytes(10), 0x0039: b"\x01"}


def energy_body(total=(0x00, 0x06, 0x79, 0x20), current=(0, 0, 0x12, 0x34), power=(0, 0x15, 0x50)) -> bytes:
    b = bytearray(20)
    b[0:4] = b"\xC1\x21\x01\x44"
    b[4:8] = bytes(total)
    b[12:16] = bytes(current)
    b[16:19] = bytes(power)
    return bytes(b)


def model(which: int) -> ModelAC:
    m = ModelAC((S0 if which == 0 else S1).copy())
    m.cap_pages = [(list(CAPS0 if which == 0 else CAPS1), b"")]
    m.props = dict(PROPS0 if which == 0 else PROPS1)
    m.energy = energy_body() if which == 0 else energy_body((0x01, 0x23, 0x45, 0x67), (0, 0x09, 0x99, 0x99), (0x02, 0x22, 0x20))
    m.indoor_humidity = 45 if which == 0 else 71
    return m


def valid_frame(kind: str, which: int = 1) -> bytes:
    """A valid response frame of the kind, as the model in state S<which> sends it."""
    m = model(which)
    if kind == "state":
        return m.state_frame(M.FT_QUERY)
    if kind == "state_sum":
        m.check_style = "sum"
        return m.state_frame(M.FT_QUERY)
    if kind == "caps":
        return rc.frame_build(M.FT_QUERY, M.caps_body(*m.cap_pages[0]), proto=3)
    if kind == "props_b1":
        recs = [M.prop_resp_record(pid, val) for pid, val in sorted(m.props.items())]
        return rc.frame_build(M.FT_QUERY, bytes([0xB1, len(recs)]) + b"".join(recs), proto=3)
    if kind == "props_b0":
        recs = [M.prop_resp_record(pid, val) for pid, val in sorted(m.props.items())][:3]
        return rc.frame_build(M.FT_CONTROL, bytes([0xB0, len(recs)]) + b"".join(recs), proto=3)
    if kind == "energy":
        return rc.frame_build(M.FT_QUERY, m.energy_body(), proto=3)
    if kind == "humidity":
        return rc.frame_build(M.FT_QUERY, m.humidity_body(), proto=3)
    raise ValueError(kind)


def is_valid(frame: bytes) -> bool:
    """The first sentence of C13 as a predicate: outer checksum ok and (property response or CRC-8 ok or additive ok)."""
    if len(frame) < 13:
        return False
    if rc.checksum(frame[1:-1]) != frame[-1]:
        return False
    body = frame[10:-1]
    if body[0] in (0xB0, 0xB1):
        return True
    return rc.crc8_bitwise(body[:-1]) == body[-1] or rc.checksum(body[:-1]) == body[-1]


CAP_ATTRS = ["supported_operation_modes", "supported_swing_modes", "supported_fan_speeds", "supports_custom_fan_speed", "supports_eco",
             "supports_turbo", "supports_freeze_protection", "supports_display_control", "supports_filter_reminder", "supports_purifier",
             "supports_humidity", "supports_target_humidity", "min_target_temperature", "max_target_temperature", "supported_aux_modes",
             "supported_rate_selects", "supports_breeze_away", "supports_breeze_mild", "supports_breezeless", "supports_ieco",
             "supports_self_clean", "supports_vertical_swing_angle", "supports_horizontal_swing_angle", "enable_energy_usage_requests"]


def snapshot(ac) -> dict:
    d = dict(ac.to_dict())
    d.pop("online", None)
    d.pop("supported", None)
    d["breeze_away"] = ac.breeze_away
    d["breeze_mild"] = ac.breeze_mild
    d["breezeless"] = ac.breezeless
    d["ieco"] = ac.ieco
    for a in CAP_ATTRS:
        v = getattr(ac, a)
        d["cap:" + a] = list(v) if isinstance(v, list) else v
    return {k: (repr(v)) for k, v in d.items()}
