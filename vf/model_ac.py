"""Model air conditioner (application layer).

A state record plus hand-written codecs that follow the vendor Lua reference
(reference/T_0000_AC_00000Q14_2024013001.lua): the 0x40 control body *decoder* (the vendor
encoder at lines 3286-3445 read backwards) and the 0xC0 status body *encoder* (the vendor
decoder at lines 1664-1836 read backwards).  Nothing here imports ``msmart``.

The model is also a conformance parser: a command that fails the strict frame parser, has a
bad body CRC, an unknown body or the wrong frame type is recorded in ``rejected`` and not
answered.
"""
from __future__ import annotations

import copy
from dataclasses import dataclass, field, asdict
from typing import Any, Optional

from . import refcodec as rc

FT_CONTROL = 0x02
FT_QUERY = 0x03

# Property ids (vendor numbering)
P_SWING_UD_ANGLE = 0x0009
P_SWING_LR_ANGLE = 0x000A
P_INDOOR_HUMIDITY = 0x0015
P_BREEZELESS = 0x0018
P_BUZZER = 0x001A
P_SELF_CLEAN = 0x0039
P_BREEZE_AWAY = 0x0042
P_BREEZE_CONTROL = 0x0043
P_RATE_SELECT = 0x0048
P_FRESH_AIR = 0x004B
P_IECO = 0x00E3
P_ANION = 0x021E


@dataclass
class ACState:
    power: bool = False
    mode: int = 2               # 1 auto 2 cool 3 dry 4 heat 5 fan 6 smart dry
    target: float = 24.0        # 13.0 .. 43.5 in half degrees
    fan: int = 102              # 0..127
    swing: int = 0              # low nibble of the swing byte: 0x3 LR, 0xC UD
    eco: bool = False
    strong_wind: bool = False   # byte 8 bit 5
    tubro: bool = False         # byte 10 bit 1
    sleep: bool = False         # byte 10 bit 0
    fahrenheit: bool = False    # byte 10 bit 2
    freeze: bool = False        # 8 degree heat, byte 21 bit 7
    follow_me: bool = False     # byte 8 bit 7
    purifier: bool = False      # byte 9 bit 5
    humidity: int = 40          # byte 19 low 7 bits
    ptc: bool = False           # byte 9 bit 3
    ptc_force: bool = False     # command only: byte 9 bit 4
    independent_ptc: bool = False   # command byte 22 bit 3 / status byte 8 bit 6
    # not settable through the 0x40 command
    display_on: bool = True
    indoor_raw: int = 0x5C      # (raw-50)/2
    outdoor_raw: int = 0x68
    indoor_tenths: int = 0
    outdoor_tenths: int = 0
    filter_alert: bool = False
    # bookkeeping from the last control command
    buzzer: bool = False

    def copy(self) -> "ACState":
        return copy.copy(self)

    def as_dict(self) -> dict:
        return asdict(self)


SETTABLE = ("power", "mode", "target", "fan", "swing", "eco", "strong_wind", "tubro", "sleep",
            "fahrenheit", "freeze", "follow_me", "purifier", "humidity", "ptc", "ptc_force",
            "independent_ptc", "buzzer")


class Reject(Exception):
    pass


# ----------------------------------------------------------------------------- 0x40 decoder
def decode_control_body(body: bytes) -> dict:
    """Vendor layout of the 0x40 control body (index 0 is the 0x40 command byte).

    Returns the requested settings plus ``_const`` with the fields the vendor fixes."""
    if len(body) < 24:
        raise Reject(f"control body too short: {len(body)}")
    if body[0] != 0x40:
        raise Reject("not a control body")
    b = body
    alt = b[18] & 0x1F
    half = 0.5 if b[2] & 0x10 else 0.0
    if alt != 0:
        target = alt + 12 + half          # linear mapping (see DESIGN section 5)
    else:
        target = (b[2] & 0x0F) + 16 + half
    out = {
        "power": bool(b[1] & 0x01),
        "buzzer": bool(b[1] & 0x40),
        "mode": (b[2] >> 5) & 0x7,
        "target": target,
        "fan": b[3] & 0x7F,
        "swing": b[7] & 0x0F,
        "strong_wind": bool(b[8] & 0x20),
        "follow_me": bool(b[8] & 0x80),
        "eco": bool(b[9] & 0x80),
        "purifier": bool(b[9] & 0x20),
        "ptc": bool(b[9] & 0x08),
        "ptc_force": bool(b[9] & 0x10),
        "sleep": bool(b[10] & 0x01),
        "tubro": bool(b[10] & 0x02),
        "fahrenheit": bool(b[10] & 0x04),
        "humidity": b[19] & 0x7F,
        "freeze": bool(b[21] & 0x80),
        "independent_ptc": bool(b[22] & 0x08),
        "_const": {
            "mobile_client": bool(b[1] & 0x02),
            "timer_switch_bit": bool(b[3] & 0x80),
            "on_timer_off": not (b[4] & 0x80),
            "off_timer_off": not (b[5] & 0x80),
            "swing_high_bits": b[7] & 0xF0,
            "alt_code": alt,
            "primary_code": b[2] & 0x0F,
            # bits the vendor defines that this library must leave clear
            "b1_other": b[1] & ~0x43 & 0xFF,
            "b8_other": b[8] & ~0xA0 & 0xFF,
            "b9_other": b[9] & ~0xB8 & 0xFF,
            "b10_other": b[10] & ~0x07 & 0xFF,
            "b19_high": b[19] & 0x80,
            "b21_other": b[21] & 0x7F,
            "b22_other": b[22] & ~0x08 & 0xFF,
        },
    }
    return out


# ----------------------------------------------------------------------------- 0xC0 encoder
def encode_state_body(s: ACState, *, length: int = 24, overrides: Optional[dict] = None,
                      tail: Optional[bytes] = None) -> bytes:
    """Vendor layout of the 0xC0 status body, ``length`` bytes (without trailing check byte).

    ``overrides`` maps byte index -> raw value (applied last); ``tail`` replaces bytes 22.."""
    b = bytearray(max(length, 24))
    b[0] = 0xC0
    b[1] = 0x01 if s.power else 0
    t_int = int(s.target)
    half = 0x10 if (s.target - t_int) >= 0.5 else 0
    if 17 <= t_int <= 30:
        code, alt = (t_int - 16) & 0xF, 0
    else:
        code, alt = 0, (t_int - 12) & 0x1F
    b[2] = ((s.mode & 7) << 5) | half | code
    b[3] = s.fan & 0x7F
    b[4] = 0x7F
    b[5] = 0x7F
    b[6] = 0x00
    b[7] = 0x30 | (s.swing & 0x0F)
    b[8] = (0x20 if s.strong_wind else 0) | (0x40 if s.independent_ptc else 0) | (0x80 if s.follow_me else 0)
    b[9] = (0x10 if s.eco else 0) | (0x20 if s.purifier else 0) | (0x08 if s.ptc else 0)
    b[10] = (0x01 if s.sleep else 0) | (0x02 if s.tubro else 0) | (0x04 if s.fahrenheit else 0)
    b[11] = s.indoor_raw & 0xFF
    b[12] = s.outdoor_raw & 0xFF
    b[13] = alt | (0x20 if s.filter_alert else 0)
    b[14] = 0x00 if s.display_on else 0x70
    b[15] = (s.indoor_tenths & 0xF) | ((s.outdoor_tenths & 0xF) << 4)
    b[16] = 0
    b[19] = s.humidity & 0x7F
    b[21] = 0x80 if s.freeze else 0
    if tail is not None:
        b[22:] = tail
    out = bytearray(b[:length])
    if overrides:
        for i, v in overrides.items():
            if int(i) < len(out):
                out[int(i)] = v & 0xFF
    return bytes(out)


def decode_state_body(b: bytes) -> dict:
    """The vendor *decoder* of the 0xC0 body (used by the self test against captures and as the
    C11 oracle for raw bodies)."""
    out: dict[str, Any] = {}
    out["power"] = bool(b[1] & 1)
    out["mode"] = (b[2] >> 5) & 7
    half = 0.5 if b[2] & 0x10 else 0.0
    alt = b[13] & 0x1F
    out["target"] = (alt + 12 + half) if alt else ((b[2] & 0xF) + 16 + half)
    out["fan"] = b[3] & 0x7F
    out["swing"] = b[7] & 0x0F
    out["strong_wind"] = bool(b[8] & 0x20)
    out["independent_ptc"] = bool(b[8] & 0x40)
    out["follow_me"] = bool(b[8] & 0x80)
    out["ptc"] = bool(b[9] & 0x08)
    out["eco"] = bool(b[9] & 0x10)
    out["purifier"] = bool(b[9] & 0x20)
    out["sleep"] = bool(b[10] & 1)
    out["tubro"] = bool(b[10] & 2)
    out["fahrenheit"] = bool(b[10] & 4)
    out["indoor_raw"] = b[11]
    out["outdoor_raw"] = b[12]
    out["filter_alert"] = bool(b[13] & 0x20)
    out["display_on"] = ((b[14] >> 4) & 7) != 7
    out["indoor_tenths"] = b[15] & 0xF
    out["outdoor_tenths"] = b[15] >> 4
    out["humidity"] = (b[19] & 0x7F) if len(b) >= 20 else None
    out["freeze"] = bool(b[21] & 0x80) if len(b) >= 22 else None
    return out


# ----------------------------------------------------------------------------- capabilities
def cap_record(cap_id: int, data: bytes) -> bytes:
    return bytes([cap_id & 0xFF, (cap_id >> 8) & 0xFF, len(data)]) + bytes(data)


def caps_body(records: list, trailer: bytes = b"", count: Optional[int] = None) -> bytes:
    """0xB5 body: id, count, records, optional trailer."""
    n = len(records) if count is None else count
    return bytes([0xB5, n & 0xFF]) + b"".join(records) + trailer


# ----------------------------------------------------------------------------- properties
def prop_resp_record(pid: int, data: bytes, result: int = 0) -> bytes:
    return bytes([pid & 0xFF, (pid >> 8) & 0xFF, result & 0xFF, len(data)]) + bytes(data)


@dataclass
class Received:
    t: float
    frame: bytes
    kind: str
    detail: Any = None


class ModelAC:
    """Application-level model: consumes command frames, returns response frames."""

    def __init__(self, state: Optional[ACState] = None) -> None:
        self.state = state or ACState()
        self.check_style = "crc"          # trailing body check of responses: crc | sum
        self.state_len = 24               # length of the 0xC0 body (without check byte)
        self.state_overrides: dict = {}
        # capability pages: list of (records, trailer)
        self.cap_pages: list = [([], b"")]
        # property store: id -> bytes (value as the device reports it); ids absent = unsupported
        self.props: dict = {}
        self.exclusive_breeze = True      # legacy louver modes exclude each other
        self.energy: Optional[bytes] = None      # 0xC1 group 4 body or None -> zeros
        self.indoor_humidity: int = 0
        # logs
        self.received: list = []
        self.rejected: list = []
        self.control_bodies: list = []
        self.prop_writes: list = []       # list of list[(id, data)] per 0xB0 command
        self.prop_queries: list = []
        self.cap_requests: list = []
        self.display_toggles = 0
        self.msg_ids: list = []
        self.now = lambda: 0.0
        # hooks: function(frame, parsed, default_responses) -> responses
        self.response_hook = None

    # -- helpers
    def _reply(self, frame_type: int, body_wo_check: bytes) -> bytes:
        return rc.frame_build(frame_type, body_wo_check, check=self.check_style, proto=3)

    def state_frame(self, frame_type: int = FT_QUERY, msg_id: int = 0) -> bytes:
        body = encode_state_body(self.state, length=self.state_len, overrides=self.state_overrides)
        return self._reply(frame_type, body)

    def _reject(self, frame: bytes, why: str) -> list:
        self.rejected.append((self.now(), why, frame.hex()))
        return []

    # -- main entry
    def handle(self, frame: bytes) -> list:
        try:
            p = rc.frame_parse(frame)
        except rc.RefError as e:
            return self._reject(frame, f"frame: {e}")
        if p.appliance != 0xAC:
            return self._reject(frame, f"appliance type {p.appliance:#x}")
        body = p.body
        cmd = body[0]
        self.msg_ids.append(body[-2])
        try:
            out = self._dispatch(p.frame_type, cmd, body[:-2], frame)
        except Reject as e:
            return self._reject(frame, str(e))
        if self.response_hook is not None:
            out = self.response_hook(frame, p, out)
        return out

    def _dispatch(self, ftype: int, cmd: int, data: bytes, frame: bytes) -> list:
        """``data`` is the body without message id and crc."""
        if cmd == 0x40:
            if ftype != FT_CONTROL:
                raise Reject(f"control command with frame type {ftype}")
            req = decode_control_body(data)
            self.control_bodies.append(bytes(data))
            self.received.append(Received(self.now(), frame, "set_state", req))
            for k in SETTABLE:
                setattr(self.state, k, req[k])
            return [self.state_frame(FT_CONTROL)]
        if cmd == 0x41:
            if ftype != FT_QUERY:
                raise Reject(f"query command with frame type {ftype}")
            if len(data) < 20:
                raise Reject("query body too short")
            if data[1] == 0x81:
                self.received.append(Received(self.now(), frame, "get_state", data[7]))
                return [self.state_frame(FT_QUERY)]
            if data[1] == 0x21 and data[2] == 0x01 and (data[3] & 0xF0) == 0x40:
                group = data[3] & 0x0F
                if group == 4:
                    self.received.append(Received(self.now(), frame, "get_energy"))
                    return [self._reply(FT_QUERY, self.energy_body())]
                if group == 5:
                    self.received.append(Received(self.now(), frame, "get_humidity"))
                    return [self._reply(FT_QUERY, self.humidity_body())]
                raise Reject(f"unknown group {group}")
            if data[4] == 0x02 and data[6] == 0x02:
                self.received.append(Received(self.now(), frame, "toggle_display", bool(data[1] & 0x40)))
                self.display_toggles += 1
                self.state.display_on = not self.state.display_on
                self.state.buzzer = bool(data[1] & 0x40)
                return [self.state_frame(FT_QUERY)]
            raise Reject("unknown 0x41 query")
        if cmd == 0xB5:
            if ftype != FT_QUERY:
                raise Reject(f"capability query with frame type {ftype}")
            if len(data) < 3 or data[1] != 0x01:
                raise Reject("bad capability query")
            if data[2] == 0x00 and len(data) == 3:
                page = 0
            elif data[2] == 0x01 and len(data) == 4 and data[3] == 0x01:
                page = 1
            else:
                raise Reject("bad capability page selector")
            self.cap_requests.append(page)
            self.received.append(Received(self.now(), frame, "get_caps", page))
            if page >= len(self.cap_pages):
                return []
            records, trailer = self.cap_pages[page]
            return [self._reply(FT_QUERY, caps_body(records, trailer))]
        if cmd == 0xB1:
            if ftype != FT_QUERY:
                raise Reject(f"property query with frame type {ftype}")
            n = data[1]
            if len(data) != 2 + 2 * n:
                raise Reject(f"property query length {len(data)} for count {n}")
            ids = [data[2 + 2 * i] | (data[3 + 2 * i] << 8) for i in range(n)]
            if len(set(ids)) != len(ids):
                raise Reject("duplicate ids in property query")
            self.prop_queries.append(ids)
            self.received.append(Received(self.now(), frame, "get_props", ids))
            recs = [self._prop_report(i) for i in ids]
            return [self._reply(FT_QUERY, bytes([0xB1, len(recs)]) + b"".join(recs))]
        if cmd == 0xB0:
            if ftype != FT_CONTROL:
                raise Reject(f"property write with frame type {ftype}")
            n = data[1]
            pos = 2
            writes = []
            for _ in range(n):
                if pos + 3 > len(data):
                    raise Reject("property write truncated")
                pid = data[pos] | (data[pos + 1] << 8)
                ln = data[pos + 2]
                val = bytes(data[pos + 3:pos + 3 + ln])
                if len(val) != ln:
                    raise Reject("property value truncated")
                writes.append((pid, val))
                pos += 3 + ln
            if pos != len(data):
                raise Reject("trailing bytes in property write")
            if len({w[0] for w in writes}) != len(writes):
                raise Reject("duplicate ids in property write")
            self.prop_writes.append(writes)
            self.received.append(Received(self.now(), frame, "set_props", writes))
            recs = []
            for pid, val in writes:
                recs.append(self._prop_write(pid, val))
            return [self._reply(FT_CONTROL, bytes([0xB0, len(recs)]) + b"".join(recs))]
        raise Reject(f"unknown command {cmd:#x}")

    # -- group data
    def energy_body(self) -> bytes:
        if self.energy is not None:
            return self.energy
        b = bytearray(20)
        b[0:4] = b"\xC1\x21\x01\x44"
        return bytes(b)

    def humidity_body(self) -> bytes:
        b = bytearray(20)
        b[0:4] = b"\xC1\x21\x01\x45"
        b[4] = self.indoor_humidity & 0xFF
        return bytes(b)

    # -- property store
    def _prop_report(self, pid: int) -> bytes:
        if pid not in self.props:
            return prop_resp_record(pid, b"")          # real devices answer unsupported ids with len 0
        val = self.props[pid]
        return prop_resp_record(pid, val)

    def _prop_write(self, pid: int, val: bytes) -> bytes:
        if pid == P_BUZZER:
            self.state.buzzer = bool(val[0]) if val else False
            return prop_resp_record(pid, val)
        if pid not in self.props:
            return prop_resp_record(pid, b"", result=0x10)
        if pid == P_IECO:
            # request: [frame, number, switch, ...] (13 bytes); report: [number, switch, ...]
            if len(val) != 13:
                return prop_resp_record(pid, b"", result=0x10)
            self.props[pid] = bytes(val[1:])
        else:
            if len(val) != 1:
                return prop_resp_record(pid, b"", result=0x10)
            self.props[pid] = bytes(val)
            if self.exclusive_breeze and val[0]:
                # legacy louver modes exclude each other: switching one on switches the other off
                if pid == P_BREEZE_AWAY and val[0] == 2 and P_BREEZELESS in self.props:
                    self.props[P_BREEZELESS] = b"\x00"
                if pid == P_BREEZELESS and val[0] == 1 and P_BREEZE_AWAY in self.props:
                    self.props[P_BREEZE_AWAY] = b"\x01"
        return prop_resp_record(pid, self.props[pid])
