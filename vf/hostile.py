"""Grammar-aware hostile peer traffic: recipes (plain JSON) -> bytes.

A recipe describes one packet by template + field overrides; signatures / tags can be *recomputed after
mutation* so that the result passes the integrity guards and reaches the logic behind them.

v2 recipe  {"t":"v2", "frame":hex, "body": "valid"|"ct"|"plain", "ct":hex, "plain":hex, "lenfield":int|None,
            "sign":"ok"|"bad"|"none", "marker":hex, "trunc":int|None, "append":hex, "magic":hex, "mid":hex4, "ts":hex8, "id":int, "rsv":hex12}
rep recipe {"t":"rep", "n":int, "item":recipe, "tail":recipe|None}      (a burst of n copies)
v3 recipe  {"t":"v3", "ptype":0..15, "inner": recipe|{"t":"raw","data":hex}, "enc":"ok"|"wrongkey"|"clear"|"ct",
            "ct":hex, "tag":"ok"|"bad"|"none", "pad":int|None, "size":int|None, "magic":int, "cnt":int, "trunc":int|None,
            "append":hex}
raw recipe {"t":"raw", "data":hex}
"""
from __future__ import annotations

import hashlib
from typing import Optional

from hypothesis import strategies as st

from . import refcodec as rc

STATE_FRAME = bytes.fromhex("aa22ac00000000000303c0014566000000300010045cff2070000000000000008bed19")


def build(recipe: dict, session_key: Optional[bytes]) -> bytes:
    t = recipe.get("t", "raw")
    if t == "raw":
        return bytes.fromhex(recipe.get("data", ""))
    if t == "v2":
        return _build_v2(recipe)
    if t == "v3":
        return _build_v3(recipe, session_key)
    if t == "seq":
        return b"".join(build(r, session_key) for r in recipe["items"])
    if t == "rep":
        # a burst: the same packet n times, optionally followed by one more recipe
        return build(recipe["item"], session_key) * int(recipe["n"]) + (build(recipe["tail"], session_key) if recipe.get("tail") else b"")
    raise ValueError(t)


def _build_v2(r: dict) -> bytes:
    frame = bytes.fromhex(r["frame"]) if "frame" in r else STATE_FRAME
    body = r.get("body", "valid")
    if body == "valid":
        ct = rc.v2_encrypt(frame)
    elif body == "ct":
        ct = bytes.fromhex(r.get("ct", ""))
    elif body == "plain":
        plain = bytes.fromhex(r.get("plain", ""))
        plain = plain + bytes(-len(plain) % 16)
        ct = rc._V2.enc(plain) if plain else b""
    else:
        raise ValueError(body)
    total = 40 + len(ct) + 16
    lf = r.get("lenfield")
    lf = total if lf is None else lf
    hdr = bytes.fromhex(r.get("marker", "5a5a")) + b"\x01\x11" + bytes([lf & 0xFF, (lf >> 8) & 0xFF]) + bytes.fromhex(r.get("magic", "2080"))
    # message id (4), timestamp (8: 1/100 s, s, min, h, day, month, year, century), device id (8), reserved (12): all covered by
    # the signature, none of them interpreted by a receiver that only wants the frame
    hdr += bytes.fromhex(r.get("mid", "00000000")) + bytes.fromhex(r.get("ts", "0102030405061814")) + (r.get("id", 1) & 0xFFFFFFFFFFFFFFFF).to_bytes(8, "little") + bytes.fromhex(r.get("rsv", "00" * 12))
    pkt = hdr + ct
    sign = r.get("sign", "ok")
    if sign == "ok":
        # sign what the receiver will take as the signed part: everything before the last 16 bytes of packet[:lenfield]
        if lf is not None and 16 <= lf <= len(pkt) + 16 and lf != total:
            full = pkt + bytes(16)
            cut = full[:lf]
            sig = rc.v2_sign(cut[:-16])
            pkt = cut[:-16] + sig + full[lf:]
        else:
            pkt = pkt + rc.v2_sign(pkt)
    elif sign == "bad":
        pkt = pkt + hashlib.md5(pkt).digest()
    if r.get("trunc") is not None:
        pkt = pkt[:max(0, r["trunc"])]
    return pkt + bytes.fromhex(r.get("append", ""))


def _build_v3(r: dict, key: Optional[bytes]) -> bytes:
    inner_r = r.get("inner", {"t": "v2"})
    inner = build(inner_r, key)
    ptype = r.get("ptype", 3)
    cnt = r.get("cnt", 0) & 0xFFFF
    cntb = bytes([cnt >> 8, cnt & 0xFF])
    enc = r.get("enc", "ok")
    k = key if key is not None else bytes(32)
    if enc == "wrongkey":
        k = hashlib.sha256(b"hostile" + k).digest()
    if enc in ("ok", "wrongkey"):
        pad = rc.v3_pad_for(len(inner))
        padn = pad if r.get("pad") is None else r["pad"] & 0xF
        plain = cntb + inner + bytes((3 * i + 1) & 0xFF for i in range(pad))
        size = len(plain) - 2 + 32
        size = size if r.get("size") is None else r["size"] & 0xFFFF
        hdr = b"\x83\x70" + bytes([size >> 8, size & 0xFF, r.get("magic", 0x20), (padn << 4) | (ptype & 0xF)])
        ct = rc.cbc0_encrypt(k, plain)
        tag = hashlib.sha256(hdr + plain).digest()
    elif enc == "ct":
        ct = bytes.fromhex(r.get("ct", ""))
        padn = (r.get("pad") or 0) & 0xF
        size = (len(ct) - 2 + 32) if r.get("size") is None else r["size"]
        size &= 0xFFFF
        hdr = b"\x83\x70" + bytes([size >> 8, size & 0xFF, r.get("magic", 0x20), (padn << 4) | (ptype & 0xF)])
        if len(ct) % 16 == 0 and len(ct) > 0:
            tag = hashlib.sha256(hdr + rc.cbc0_decrypt(k, ct)).digest()     # valid tag over random ciphertext
        else:
            tag = hashlib.sha256(hdr + ct).digest()
    else:   # clear: counter + inner in clear, no tag
        padn = (r.get("pad") or 0) & 0xF
        size = len(inner) if r.get("size") is None else r["size"] & 0xFFFF
        hdr = b"\x83\x70" + bytes([size >> 8, size & 0xFF, r.get("magic", 0x20), (padn << 4) | (ptype & 0xF)])
        ct = cntb + inner
        tag = b""
    tmode = r.get("tag", "ok")
    if enc != "clear":
        if tmode == "bad":
            tag = hashlib.sha256(tag).digest()
        elif tmode == "none":
            tag = b""
    pkt = hdr + ct + tag
    if r.get("fixsize"):
        n = max(0, len(pkt) - 8)
        pkt = pkt[:2] + bytes([(n >> 8) & 0xFF, n & 0xFF]) + pkt[4:]
    if r.get("trunc") is not None:
        pkt = pkt[:max(0, r["trunc"])]
    return pkt + bytes.fromhex(r.get("append", ""))


# ----------------------------------------------------------------------------- strategies
_hex = lambda s: s.map(lambda b: b.hex())
_BOUND_LEN = [0, 1, 5, 6, 15, 16, 17, 31, 32, 39, 40, 41, 55, 56, 57, 71, 72, 73, 0x5A5A, 0xFFFF]


def _opt(strategy):
    return st.one_of(st.none(), strategy)


def v2_recipes():
    ct = st.one_of(st.just(b""), st.integers(0, 5).flatmap(lambda k: st.binary(min_size=16 * k, max_size=16 * k)),
                   st.binary(max_size=70))
    return st.fixed_dictionaries({
        "t": st.just("v2"),
        "body": st.sampled_from(["valid", "valid", "ct", "ct", "plain"]),
        "sign": st.sampled_from(["ok", "ok", "ok", "bad", "none"]),
        "ts": st.one_of(st.just("0102030405061814"), _hex(st.binary(min_size=8, max_size=8)), st.sampled_from(["000000001e021814", "00000000010118ff", "0000000001010000", "ffffffffffffffff", "6363633b171f0c63"])),
        "mid": _hex(st.binary(min_size=4, max_size=4)), "rsv": _hex(st.binary(min_size=12, max_size=12)), "id": st.sampled_from([1, 0, 2 ** 48 - 1, 2 ** 64 - 1]),
    }, optional={
        "frame": _hex(st.binary(max_size=64)),
        "ct": _hex(ct),
        "plain": _hex(st.one_of(st.binary(max_size=48), st.binary(max_size=31).map(lambda b: b + bytes([17])),
                                st.binary(max_size=31).map(lambda b: b + bytes(1)))),
        "lenfield": st.one_of(st.sampled_from(_BOUND_LEN), st.integers(0, 200)),
        "marker": st.sampled_from(["5a5a", "5a5b", "8370", "aa22", "0000"]),
        "trunc": st.integers(0, 120),
        "append": _hex(st.binary(max_size=20)),
    })


def inner_recipes():
    return st.one_of(v2_recipes(), st.fixed_dictionaries({"t": st.just("raw"), "data": _hex(st.binary(max_size=90))}),
                     st.integers(0, 6).map(lambda k: {"t": "raw", "data": (b"\x5a\x5a" + bytes(16 * k + 12)).hex()}))


def v3_recipes():
    return st.fixed_dictionaries({
        "t": st.just("v3"),
        "ptype": st.one_of(st.just(3), st.just(3), st.integers(0, 15)),
        "inner": inner_recipes(),
        "enc": st.sampled_from(["ok", "ok", "ok", "wrongkey", "clear", "ct", "ct"]),
        "tag": st.sampled_from(["ok", "ok", "ok", "bad", "none"]),
    }, optional={
        "ct": _hex(st.one_of(st.binary(max_size=70), st.integers(0, 5).flatmap(lambda k: st.binary(min_size=16 * k, max_size=16 * k)))),
        "pad": st.integers(0, 15),
        "size": st.one_of(st.sampled_from(_BOUND_LEN), st.integers(0, 300)),
        "magic": st.sampled_from([0x20, 0x20, 0x00, 0x21, 0xFF]),
        "cnt": st.integers(0, 65535),
        "trunc": st.integers(0, 150),
        "append": _hex(st.binary(max_size=20)),
        "fixsize": st.booleans(),
    })


def raw_recipes():
    return st.fixed_dictionaries({"t": st.just("raw"), "data": _hex(st.one_of(
        st.binary(max_size=120), st.binary(max_size=100).map(lambda b: b"\x83\x70" + b), st.binary(max_size=100).map(lambda b: b"\x5a\x5a" + b),
        st.binary(max_size=60).map(lambda b: b"\x83\x70" + bytes([0, len(b)]) + b"\x20\x03" + b + bytes(2))))})


def recipes(version: int):
    one = st.one_of(v3_recipes(), v3_recipes(), raw_recipes(), v2_recipes()) if version == 3 else st.one_of(v2_recipes(), v2_recipes(), raw_recipes())
    return st.one_of(one, one, st.lists(one, min_size=2, max_size=3).map(lambda items: {"t": "seq", "items": items}))
