"""Transport personalities of the model device: a V2 or V3 Midea LAN endpoint on the simulated
network, wrapping a ``ModelAC``.  Uses only the reference codec.

Behaviour is scripted per received *transmission* (data packet) and per handshake request:

data actions (``dev.script`` list, consumed in order, default = prompt answer)
    ("answer", {"delay": d, "cuts": [...], "pre": [frames], "post": [frames], "gap": g})
    ("drop",)                        never answer this transmission
    ("error",)                       V3 error packet / V2: garbage
    ("garbage", bytes)               raw bytes
    ("raw", bytes)                   raw bytes (alias)
    ("close",)                       close the connection instead of answering
    ("frames", [frames], {...})      answer with these application frames instead of the model's

handshake actions (``dev.hs_script``)
    ("genuine", {"delay": d})
    ("drop",)
    ("raw", bytes)                   arbitrary packet bytes instead of the reply
    ("body", bytes)                  handshake reply packet with this body
    ("close",)
"""
from __future__ import annotations

import hashlib
from dataclasses import dataclass, field
from typing import Any, Callable, Optional

from . import refcodec as rc
from .model_ac import ModelAC


@dataclass
class WireEvent:
    t: float
    conn: int
    kind: str            # hs_req | data | undecodable | raw_garbage
    counter: Optional[int] = None
    ok: bool = True
    note: str = ""
    frame: Optional[bytes] = None
    token: Optional[bytes] = None
    key_gen: Optional[int] = None     # index of the session key (per connection) it decrypted under
    raw: bytes = b""


class DevConn:
    """One accepted TCP connection, device side."""

    def __init__(self, dev: "SimDevice", transport) -> None:
        self.dev = dev
        self.tr = transport
        self.id = transport.conn_id
        self.buf = bytearray()
        self.session_keys: list = []       # every key this connection ever agreed (latest last)
        self.resp_counter = 0
        self.closed = False
        self.opened_at = dev.loop.time()
        self.handshakes = 0                # genuine replies sent
        self.last_handshake_at: Optional[float] = None

    # called by MemTransport
    def data_received(self, data: bytes) -> None:
        if self.closed:
            return
        self.buf += data
        garbage: list = []
        if self.dev.version == 3:
            pkts = rc.v3_split_stream(self.buf, garbage)
        else:
            pkts = rc.v2_split_stream(self.buf, garbage)
        for g in garbage:
            # bytes that are not part of any packet of this device's protocol version (e.g. a V2 packet sent to a V3 device)
            self.dev.log.append(WireEvent(self.dev.loop.time(), self.id, "undecodable", ok=False, note="garbage " + g[:8].hex(), raw=g))
        for p in pkts:
            self.dev._on_packet(self, p)

    def client_closed(self) -> None:
        self.closed = True
        self.dev.log.append(WireEvent(self.dev.loop.time(), self.id, "client_close"))

    # sending
    def send_stream(self, stream: bytes, *, delay: float = 0.0, cuts: Optional[list] = None, gap: float = 0.0) -> None:
        """Send a byte stream, split at ``cuts`` (offsets), first chunk after ``delay`` and
        ``gap`` seconds between chunks."""
        if self.closed:
            return
        offs = sorted({c for c in (cuts or []) if 0 < c < len(stream)})
        chunks = []
        last = 0
        for c in offs + [len(stream)]:
            chunks.append(stream[last:c])
            last = c
        t = delay
        for ch in chunks:
            if not ch:
                continue
            self.tr.feed_later(t, ch)
            t += gap

    def close(self, delay: float = 0.0, reset: bool = False) -> None:
        def _do():
            if not self.closed:
                self.closed = True
                self.tr.peer_close(ConnectionResetError(104, "Connection reset by peer") if reset else None)
        if delay:
            self.dev.loop.call_later(delay, _do)
        else:
            self.dev.loop.call_soon(_do)

    def hang_up(self, mode: str, delay: float = 0.0) -> None:
        """Close behind everything already sent on this connection (TCP order): mode "fin" / "rst" as separate events,
        "fin_same" / "rst_same" reported to the client's loop in the same pass as the last data."""
        if self.closed:
            return
        self.closed = True
        exc = ConnectionResetError(104, "Connection reset by peer") if mode.startswith("rst") else None
        self.tr.close_later(delay + (0.0 if mode.endswith("_same") else 1e-4), exc, same_pass=mode.endswith("_same"))


class SimDevice:
    def __init__(self, loop, *, version: int = 2, device_id: int = 0x1234, ac: Optional[ModelAC] = None,
                 token: Optional[bytes] = None, key: Optional[bytes] = None, latency: float = 0.05,
                 nonce_source: Optional[Callable[[int], bytes]] = None) -> None:
        self.loop = loop
        self.version = version
        self.device_id = device_id
        self.ac = ac or ModelAC()
        self.ac.now = loop.time
        self.token = token
        self.key = key
        self.latency = latency
        self.script: list = []
        self.hs_script: list = []
        self.default_action = ("answer", {})
        self.default_hs_action = ("genuine", {})
        self.conns: list = []
        self.log: list = []              # WireEvents
        self.transmissions: list = []    # (t, conn id, frame or None) for every data packet received
        self.connect_script: list = []   # outcomes for the next connects: accept/refuse/hang
        self.accepted_tokens: Optional[set] = None   # None -> only self.token
        self._nonce_n = 0
        self._nonce_source = nonce_source
        self.reply_device_id: Optional[int] = None
        self.silent_on_bad_token = False
        self.bad_token_delay: Optional[float] = None
        self.on_data: Optional[Callable] = None      # hook(dev, conn, frame) -> action or None
        self.key_lifetime: Optional[float] = None    # seconds after which the device forgets a session key (None: never)
        self.expired_key_packets = 0
        self.hangup: Optional[str] = None            # personality: hang up ("fin", "rst", "fin_same", "rst_same") right after every answer

    # -- network side
    def connect_policy(self) -> str:
        if self.connect_script:
            return self.connect_script.pop(0)
        return "accept"

    def accept(self, transport) -> DevConn:
        c = DevConn(self, transport)
        self.conns.append(c)
        self.log.append(WireEvent(self.loop.time(), c.id, "connect"))
        return c

    # -- helpers
    def next_nonce(self) -> bytes:
        self._nonce_n += 1
        if self._nonce_source is not None:
            return self._nonce_source(self._nonce_n)
        return hashlib.sha256(b"nonce" + self._nonce_n.to_bytes(4, "big") + (self.key or b"")).digest()

    def wrap(self, conn: DevConn, frame: bytes) -> bytes:
        """Application frame -> wire packet for this connection."""
        did = self.device_id if self.reply_device_id is None else self.reply_device_id
        v2 = rc.v2_encode(did, frame, magic=b"\x20\x80", timestamp=bytes([0, 1, 2, 3, 4, 5, 24, 20]))
        if self.version == 2:
            return v2
        key = conn.session_keys[-1]
        pkt = rc.v3_encode_response(key, conn.resp_counter & 0xFFFF, v2)
        conn.resp_counter += 1
        return pkt

    # -- packet handling
    def _on_packet(self, conn: DevConn, pkt: bytes) -> None:
        now = self.loop.time()
        if self.version == 2:
            try:
                p = rc.v2_decode(pkt)
            except rc.RefError as e:
                self.log.append(WireEvent(now, conn.id, "undecodable", ok=False, note=str(e), raw=pkt))
                return
            self.log.append(WireEvent(now, conn.id, "data", frame=p.frame, raw=pkt, note=f"id={p.device_id}"))
            self.transmissions.append((now, conn.id, p.frame, p.device_id))
            self._data(conn, p.frame)
            return
        # V3
        try:
            hdr_type = pkt[5] & 0xF
        except IndexError:
            self.log.append(WireEvent(now, conn.id, "undecodable", ok=False, note="short", raw=pkt))
            return
        if hdr_type == rc.T_HANDSHAKE_REQ:
            try:
                p = rc.v3_decode(pkt, None)
            except rc.RefError as e:
                self.log.append(WireEvent(now, conn.id, "undecodable", ok=False, note=str(e), raw=pkt))
                return
            self.log.append(WireEvent(now, conn.id, "hs_req", counter=p.counter, token=p.payload, raw=pkt))
            self._handshake(conn, p)
            return
        if hdr_type == rc.T_ENC_REQ:
            # try the latest key first, then older keys of this connection, then keys of other connections
            decoded = None
            gen = None
            note = ""
            for g in range(len(conn.session_keys) - 1, -1, -1):
                try:
                    p = rc.v3_decode(pkt, conn.session_keys[g])
                except rc.RefError as e:
                    note = str(e)
                    continue
                if p.tag_valid:
                    decoded, gen = p, g
                    break
            if decoded is None:
                foreign = False
                for other in self.conns:
                    if other is conn:
                        continue
                    for k in other.session_keys:
                        try:
                            p = rc.v3_decode(pkt, k)
                        except rc.RefError:
                            continue
                        if p.tag_valid:
                            foreign = True
                self.log.append(WireEvent(now, conn.id, "undecodable", ok=False, raw=pkt,
                                          note=("foreign-key" if foreign else ("no-key" if not conn.session_keys else "bad-tag " + note))))
                return
            try:
                v2 = rc.v2_decode(decoded.payload)
            except rc.RefError as e:
                self.log.append(WireEvent(now, conn.id, "undecodable", ok=False, raw=pkt, counter=decoded.counter,
                                          key_gen=gen, note=f"inner v2: {e}"))
                return
            stale = gen != len(conn.session_keys) - 1
            self.log.append(WireEvent(now, conn.id, "data", counter=decoded.counter, frame=v2.frame, key_gen=gen,
                                      raw=pkt, note=("stale-key " if stale else "") + f"id={v2.device_id} pad={decoded.pad} size={decoded.size_field}"))
            self.transmissions.append((now, conn.id, v2.frame, v2.device_id))
            if stale:
                return       # a device that moved to a new key cannot read this
            if self.key_lifetime is not None and conn.last_handshake_at is not None and now - conn.last_handshake_at > self.key_lifetime:
                # the device dropped the session key when its lifetime ended: it answers with an error packet
                self.expired_key_packets += 1
                conn.send_stream(rc.v3_error_packet(), delay=self.latency)
                return
            self._data(conn, v2.frame)
            return
        self.log.append(WireEvent(now, conn.id, "undecodable", ok=False, note=f"type {hdr_type}", raw=pkt))

    def _handshake(self, conn: DevConn, p) -> None:
        action = self.hs_script.pop(0) if self.hs_script else self.default_hs_action
        kind = action[0]
        opts = action[1] if len(action) > 1 and isinstance(action[1], dict) else {}
        delay = opts.get("delay", self.latency)
        token_ok = (p.payload == self.token) if self.accepted_tokens is None else (bytes(p.payload) in self.accepted_tokens)
        if kind == "drop":
            return
        if kind == "close":
            conn.close(delay)
            return
        if kind == "raw":
            conn.send_stream(action[1], delay=self.latency)
            return
        if kind == "body":
            conn.send_stream(rc.v3_handshake_reply(conn.resp_counter & 0xFFFF, action[1]), delay=self.latency)
            return
        if not token_ok and self.silent_on_bad_token:
            return               # some firmware simply ignores a handshake with an unknown token
        if kind == "error" or not token_ok:
            if not token_ok and self.bad_token_delay is not None:
                delay = self.bad_token_delay       # firmware that takes its time to reject an unknown token
            conn.send_stream(rc.v3_error_packet(), delay=delay)
            if opts.get("then"):
                conn.hang_up(opts["then"])
            return
        # genuine (optionally mutated through opts["mutate"](body) or under another key)
        nonce = self.next_nonce()
        key = opts.get("key", self.key)
        body = rc.v3_handshake_reply_body(key, nonce)
        if "mutate" in opts:
            body = opts["mutate"](body)
        # the device moves to the new session key in any case
        conn.session_keys.append(rc.v3_session_key(self.key, nonce))
        conn.handshakes += 1
        conn.last_handshake_at = self.loop.time()
        pkt = rc.v3_handshake_reply(0, body)
        if "ptype" in opts:
            pkt = pkt[:5] + bytes([(pkt[5] & 0xF0) | (opts["ptype"] & 0xF)]) + pkt[6:]
        if "padnibble" in opts:
            pkt = pkt[:5] + bytes([(pkt[5] & 0x0F) | ((opts["padnibble"] & 0xF) << 4)]) + pkt[6:]
        if opts.get("trunc") is not None:
            pkt = pkt[:opts["trunc"]]          # only the beginning of the reply makes it onto the wire
        if opts.get("behind") == "data":
            # a status report pushed right behind the handshake reply, in the same segment (encrypted under the new session key)
            pkt += self.wrap(conn, self.ac.state_frame(0x03))
        elif opts.get("behind") == "reply2":
            # a second, genuine handshake reply (to a request the unit believes it has seen) right behind the first, same segment
            nonce2 = self.next_nonce()
            conn.session_keys.append(rc.v3_session_key(self.key, nonce2))
            pkt += rc.v3_handshake_reply(1, rc.v3_handshake_reply_body(self.key, nonce2))
        conn.send_stream(pkt, delay=delay, cuts=opts.get("cuts"), gap=opts.get("gap", 0.0))
        if opts.get("then"):
            conn.hang_up(opts["then"])         # ... and the unit hangs up behind it
        self.log.append(WireEvent(self.loop.time(), conn.id, "hs_reply", note=kind + (" mutated" if ("mutate" in opts or "key" in opts or "ptype" in opts or "padnibble" in opts or opts.get("trunc") is not None) else "")))

    def _data(self, conn: DevConn, frame: bytes) -> None:
        action = None
        if self.on_data is not None:
            action = self.on_data(self, conn, frame)
        if action is None:
            action = self.script.pop(0) if self.script else self.default_action
        kind = action[0]
        if kind == "drop":
            # the application still sees (and applies) the command? No: a dropped transmission is lost on the wire
            return
        if kind == "close":
            conn.close()
            return
        if kind == "reset":
            conn.close(reset=True)
            return
        if kind == "error":
            if self.version == 3:
                conn.send_stream(rc.v3_error_packet(), delay=self.latency)
            else:
                conn.send_stream(b"\x5a\x5a\x01\x11\x10\x00ERROR", delay=self.latency)
            return
        if kind in ("garbage", "raw"):
            conn.send_stream(action[1], delay=self.latency)
            return
        old_state_frame = None
        if kind == "frames":
            frames = list(action[1])
            opts = action[2] if len(action) > 2 else {}
            self.ac.handle(frame)    # the model still processes the command
        else:
            opts = action[1] if len(action) > 1 else {}
            if "STATE_OLD" in list(opts.get("pre", [])) + list(opts.get("post", [])):
                old_state_frame = self.ac.state_frame(0x03)
            if opts.get("lost_in_app"):
                frames = []
            else:
                frames = self.ac.handle(frame)

        def expand(tokens):
            out = []
            for tkn in tokens:
                if tkn == "DUP":
                    out += frames[:1]
                elif tkn == "STATE":
                    out.append(self.ac.state_frame(0x03))
                elif tkn == "STATE_OLD":
                    out.append(old_state_frame)
                elif tkn == "A0":
                    out.append(rc.frame_build(0x05, bytes([0xA0]) + bytes(range(1, 22)), proto=3))
                elif tkn == "A1":
                    out.append(rc.frame_build(0x04, bytes([0xA1]) + bytes(range(30, 52)), proto=3))
                elif tkn == "B5N":
                    out.append(rc.frame_build(0x05, bytes([0xB5, 0x01, 0x12, 0x02, 0x01, 0x01]), proto=3))
                elif tkn == "B1X":
                    # a checksum-valid property report whose last record announces a value byte that is not there
                    out.append(rc.frame_build(0x05, bytes.fromhex("b102090000013242000001"), proto=3))
                else:
                    out.append(tkn)
            return out
        pre = expand(list(opts.get("pre", [])))
        post = expand(list(opts.get("post", [])))
        delay = opts.get("delay", self.latency)
        seq = pre + frames + post
        if not seq:
            return
        pkts = [f if isinstance(f, tuple) else ("frame", f) for f in seq]
        wire = []
        for tag, f in pkts:
            if tag == "frame":
                wire.append(self.wrap(conn, f))
            else:      # ("wire", raw bytes)
                wire.append(f)
        mode = opts.get("segment", "stream" if self.version == 3 else "packets")
        if mode == "packets":
            # one TCP segment per packet
            t = delay
            for w in wire:
                conn.tr.feed_later(t, w) if not conn.closed else None
                t += opts.get("gap", 0.0)
        else:
            stream = b"".join(wire)
            conn.send_stream(stream, delay=delay, cuts=opts.get("cuts"), gap=opts.get("gap", 0.0))
        then = opts.get("then", self.hangup)
        if then:
            conn.hang_up(then, opts.get("then_delay", 0.0))
