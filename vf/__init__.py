"""Verification framework for mill1000/midea-msmart (property-based testing and fuzzing)."""
