"""Model validation: anchor the *reference side* to bytes captured from real hardware that are
already in the repository's tests, so that "independent" does not mean "imagined".

Run before every check (cheap); a failure is a harness error (exit 2)."""
from __future__ import annotations

import asyncio

from . import model_ac as m
from . import refcodec as rc

_RAN = False

# captured from real devices (copied from the repository's tests as literals)
CAP_V2_PACKET = bytes.fromhex(
    "5a5a01116800208000000000000000000000000060ca0000000e0000000000000000000001000000c6a90377a364cb55af337259514c6f96bf084e8c7a899b50b68920cdea36cecf11c882a88861d1f46cd87912f201218c66151f0c9fbe5941c5384e707c36ff76")
CAP_V2_FRAME = bytes.fromhex("aa22ac00000000000303c0014566000000300010045cff2070000000000000008bed19")
CAP_V3_PACKET = bytes.fromhex(
    "8370008e2063ec2b8aeb17d4e3aff77094dde7fa65cf22671adf807f490a97b927347943626e9b4f58362cf34b97a0d641f8bf0c8fcbf69ad8cca131d2d7baa70ef048c5e3f3dc78da8af4598ff47aee762a0345c18815d91b50a24dedcacde0663c4ec5e73a963dc8bbbea9a593859996eb79dcfcc6a29b96262fcaa8ea6346366efea214e4a2e48caf83489475246b6fef90192b00")
CAP_V3_KEY = bytes.fromhex("55a0a178746a424bf1fc6bb74b9fb9e4515965048d24ce8dc72aca91597d05ab")
CAP_V3_FRAME = bytes.fromhex("aa23ac00000000000303c00145660000003c0010045c6800000000000000000000018426")
CAP_DISC_V2 = bytes.fromhex(
    "5a5a011178007a8000000000000000000000000060ca0000000e0000000000000000000001000000c08651cb1b88a167bdcf7d37534ef81312d39429bf9b2673f200b635fae369a560fa9655eab8344be22b1e3b024ef5dfd392dc3db64dbffb6a66fb9cd5ec87a78000cd9043833b9f76991e8af29f3496")
CAP_DISC_V3 = bytes.fromhex(
    "837000c8200f00005a5a0111b8007a800000000061433702060817143daa00000086000000000000000001800000000041c7129527bc03ee009284a90c2fbd2f179764ac35b55e7fb0e4ab0de9298fa1a5ca328046c603fb1ab60079d550d03546b605180127fdb5bb33a105f5206b5f008bffba2bae272aa0c96d56b45c4afa33f826a0a4215d1dd87956a267d2dbd34bdfb3e16e33d88768cc4c3d0658937d0bb19369bf0317b24d3a4de9e6a13106f7ceb5acc6651ce53d684a32ce34dc3a4fbe0d4139de99cc88a0285e14657045")

# (target, indoor, outdoor) -> captured 0xC0 payloads with the values their reporters read off the unit
CAP_STATES = [
    ((16.0, 23.2, 18.4), "c00181667f7f003c00000060560400420000000000000048"),
    ((16.5, 23.4, 18.4), "c00191667f7f003c00000060560400440000000000000049"),
    ((17.0, 23.6, 18.3), "c00181667f7f003c0000006156050036000000000000004a"),
    ((17.5, 23.8, 18.2), "c00191667f7f003c0000006156050028000000000000004b"),
    ((18.0, 23.8, 18.2), "c00182667f7f003c0000006156060028000000000000004c"),
    ((19.5, 23.5, 18.5), "c00193667f7f003c00000061570700550000000000000050"),
    ((16.0, None, None), "c00040660000003c00000062680400000000000000000004"),
    ((16.5, None, None), "c00050660000003c00000062670400000000000000000004"),
]
CAP_STATE_FRAMES = [
    "aa1eac00000000000003c0004b1e7f7f000000000069630000000000000d33",
    "aa22ac00000000000303c0014566000000300010045eff00000000000000000069fdb9",
    "aa23ac00000000000303c00145660000003c0010045c6b20000000000000000000020d79",
    "aa23ac00000000000203c00188647f7f000000000063450c0056190000000000000497c3",
]


def _check(cond: bool, what: str) -> None:
    if not cond:
        raise AssertionError(f"self-test failed: {what}")


def run() -> None:
    global _RAN
    if _RAN:
        return
    # AES single block primitive against FIPS-197 appendix C vectors
    pt = bytes.fromhex("00112233445566778899aabbccddeeff")
    k128 = bytes(range(16))
    k256 = bytes(range(32))
    _check(rc._blk_enc(k128, pt).hex() == "69c4e0d86a7b0430d8cdb78070b4c55a", "AES-128 KAT")
    _check(rc._blk_enc(k256, pt).hex() == "8ea2b7ca516745bfeafc49904b496089", "AES-256 KAT")
    _check(rc._blk_dec(k256, rc._blk_enc(k256, pt)) == pt, "AES-256 inverse")

    # CRC-8: the reference's table implementation == its bitwise implementation (the library's table is compared
    # with the bitwise CRC by C12, not here: a defect there is a violation, not a harness error)
    for i in range(256):
        _check(rc.crc8_bitwise(bytes([i, 0x5A, i ^ 0xFF])) == rc.crc8(bytes([i, 0x5A, i ^ 0xFF])), f"reference crc table entry {i}")
    _check(rc.crc8(b"123456789") == rc.crc8_bitwise(b"123456789") == 0xA1, "CRC-8/MAXIM check value")

    # V2 capture
    p = rc.v2_decode(CAP_V2_PACKET)
    _check(p.frame == CAP_V2_FRAME, "captured V2 packet decodes to captured frame")
    _check(p.device_id == 15393162840672, "captured V2 device id")
    re = rc.v2_encode(p.device_id, p.frame, timestamp=p.timestamp, message_id=p.message_id, magic=p.magic, reserved=p.reserved)
    _check(re == CAP_V2_PACKET, "reference V2 encoder reproduces the capture byte for byte")

    # V3 capture
    q = rc.v3_decode(CAP_V3_PACKET, CAP_V3_KEY)
    _check(q.tag_valid is True and q.ptype == rc.T_ENC_RESP, "captured V3 packet tag")
    _check(q.pad == rc.v3_pad_for(len(q.payload)), "captured V3 pad arithmetic")
    _check(rc.v2_decode(q.payload).frame == CAP_V3_FRAME, "captured V3 packet -> V2 -> frame")
    plain_pad = rc.cbc0_decrypt(CAP_V3_KEY, CAP_V3_PACKET[6:-32])[-q.pad:] if q.pad else b""
    _check(rc.v3_encode_response(CAP_V3_KEY, q.counter, q.payload, padbytes=plain_pad) == CAP_V3_PACKET,
           "reference V3 encoder reproduces the capture byte for byte")

    # discovery captures
    d2 = rc.discovery_parse(CAP_DISC_V2)
    _check((d2.device_id, d2.port, d2.sn, d2.name, d2.version, d2.ip) ==
           (15393162840672, 6444, "000000P0000000Q1F0C9D153F7B40000", "net_ac_F7B4", 2, "10.100.1.140"), f"V2 discovery capture {d2}")
    d3 = rc.discovery_parse(CAP_DISC_V3)
    _check((d3.device_id, d3.port, d3.sn, d3.name, d3.version, d3.ip) ==
           (147334558165565, 6444, "000000P0000000Q1B88C29C963BA0000", "net_ac_63BA", 3, "10.100.1.239"), f"V3 discovery capture {d3}")
    hdr = CAP_DISC_V2
    rebuilt = rc.discovery_reply(d2, magic=hdr[6:8], message_id=hdr[8:12], timestamp=hdr[12:20], reserved=hdr[28:40])
    _check(rebuilt == CAP_DISC_V2, "reference discovery builder reproduces the V2 capture")
    inner = CAP_DISC_V3[8:-16]
    rebuilt3 = rc.discovery_reply(d3, magic=inner[6:8], message_id=inner[8:12], timestamp=inner[12:20],
                                  reserved=inner[28:40], v3_trailer=CAP_DISC_V3[-16:])
    _check(rebuilt3 == CAP_DISC_V3, "reference discovery builder reproduces the V3 capture")
    _check(rc.probe_ok(rc.DISCOVERY_PROBE), "probe constant verifies and decrypts")

    # frames + state layout against captures
    for hx in CAP_STATE_FRAMES + [CAP_V2_FRAME.hex(), CAP_V3_FRAME.hex()]:
        f = bytes.fromhex(hx)
        pf = rc.frame_parse(f, need_crc=False)
        body = pf.body
        _check(rc.crc8_bitwise(body[:-1]) == body[-1] or rc.checksum(body[:-1]) == body[-1], "captured body check")
    for (target, indoor, outdoor), hx in CAP_STATES:
        b = bytes.fromhex(hx)
        d = m.decode_state_body(b)
        _check(d["target"] == target, f"captured target {target} got {d['target']}")
        if indoor is not None:
            coarse = (d["indoor_raw"] - 50) / 2
            _check(abs(coarse - indoor) <= 1 and round((indoor * 10) % 10) == d["indoor_tenths"], "captured indoor")
        # re-encode the decoded fields; every modelled byte must be reproduced
        st = m.ACState(power=d["power"], mode=d["mode"], target=d["target"], fan=d["fan"], swing=d["swing"],
                       eco=d["eco"], strong_wind=d["strong_wind"], tubro=d["tubro"], sleep=d["sleep"],
                       fahrenheit=d["fahrenheit"], freeze=bool(d["freeze"]), follow_me=d["follow_me"],
                       purifier=d["purifier"], humidity=d["humidity"] or 0, ptc=d["ptc"],
                       independent_ptc=d["independent_ptc"], display_on=d["display_on"],
                       indoor_raw=d["indoor_raw"], outdoor_raw=d["outdoor_raw"], indoor_tenths=d["indoor_tenths"],
                       outdoor_tenths=d["outdoor_tenths"], filter_alert=d["filter_alert"])
        enc = m.encode_state_body(st, length=len(b))
        for i in (1, 3, 8, 9, 10, 11, 12, 15, 19, 21):
            if i < len(b):
                _check(enc[i] == b[i], f"re-encoded byte {i} of {hx}: {enc[i]:#x} != {b[i]:#x}")
        _check(m.decode_state_body(enc)["target"] == target, "re-encoded target")

    # virtual loop plumbing
    from . import vloop

    async def main(loop):
        t0 = loop.time()
        await asyncio.sleep(13 * 3600)
        try:
            await asyncio.wait_for(loop.create_future(), timeout=2)
        except (asyncio.TimeoutError, TimeoutError):
            pass
        return loop.time() - t0

    r, _ = vloop.run(main)
    _check(abs(r - (13 * 3600 + 2)) < 1e-6, f"virtual clock advance {r}")
    _RAN = True
