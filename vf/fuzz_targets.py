"""Coverage-guided fuzz targets (atheris / libFuzzer) for C04, C09, C14 and C18 -- an additional search in the thorough tier.

Run as a subprocess:  python -m vf.fuzz_targets <c04|c09|c14|c18> <out.json> [libFuzzer args...]

The target decodes fuzzer bytes through a FuzzedDataProvider layer into *structured* choices (template, fields,
re-sign / re-encrypt) so the fuzzer gets past signatures and reaches the logic; the semantic oracle is inside the
target.  On a violation the offending case is written to <out.json> (a normal replay case for the property) and the
process exits with status 77; libFuzzer's own crash handling is not used.
"""
from __future__ import annotations

import json
import os
import sys


def _setup():
    here = os.path.dirname(os.path.dirname(os.path.abspath(__file__)))
    deps = os.path.join(here, ".deps")
    if deps not in sys.path:
        sys.path.append(deps)
    import atheris
    from . import harness
    repo = harness.REPO
    if repo not in sys.path:
        sys.path.insert(0, repo)
    with atheris.instrument_imports(include=["msmart"]):
        import msmart.lan  # noqa: F401
        import msmart.discover  # noqa: F401
        import msmart.device.AC.command  # noqa: F401
        import msmart.device.AC.device  # noqa: F401
        import msmart.base_device  # noqa: F401
    harness.setup()
    return atheris


def main() -> None:
    target, out_path = sys.argv[1], sys.argv[2]
    args = [sys.argv[0]] + sys.argv[3:]
    atheris = _setup()
    from . import refcodec as rc
    stats = {"execs": 0, "interesting": 0}

    def report(case, bucket, detail):
        with open(out_path, "w") as f:
            json.dump({"bucket": bucket, "detail": detail, "case": case, "execs": stats["execs"]}, f)
        sys.stdout.flush()
        os._exit(77)

    if target == "c14":
        from msmart.device import AirConditioner as AC
        from msmart.device.AC.command import CapabilitiesResponse, InvalidResponseException, Response
        from msmart.frame import InvalidFrameException

        def one(data: bytes) -> None:
            stats["execs"] += 1
            fdp = atheris.FuzzedDataProvider(data)
            ftype = fdp.ConsumeIntInRange(0, 7)
            rid = fdp.PickValueInList([0xC0, 0xC1, 0xB5, 0xB1, 0xB0, fdp.ConsumeIntInRange(0, 255)])
            style = fdp.PickValueInList(["crc", "sum"])
            body = bytes([rid]) + fdp.ConsumeBytes(fdp.ConsumeIntInRange(0, 90))
            frame = rc.frame_build(ftype, body, check=style, proto=3)
            ac = AC(ip="10.0.0.9", port=6444, device_id=1)
            try:
                resp = Response.construct(frame)
            except (InvalidFrameException, InvalidResponseException):
                return
            except Exception as e:
                report({"op": "refresh", "good": False, "pre": [{"t": "hex", "hex": frame.hex()}], "post": []},
                       f"raises/{type(e).__name__}@construct", f"Response.construct raised {e!r} for {frame.hex()}")
            stats["interesting"] += 1
            try:
                ac._update_state(resp)
                if isinstance(resp, CapabilitiesResponse):
                    ac._update_capabilities(resp)
                    for name in dir(type(resp)):
                        if not name.startswith("_") and isinstance(getattr(type(resp), name), property):
                            getattr(resp, name)
                ac.to_dict()
            except Exception as e:
                report({"op": "caps" if isinstance(resp, CapabilitiesResponse) else "refresh", "good": False,
                        "pre": [{"t": "hex", "hex": frame.hex()}], "post": []},
                       f"raises/{type(e).__name__}@update", f"applying the response raised {e!r} for {frame.hex()}")

    elif target == "c09":
        import hashlib
        from msmart.lan import ProtocolError, _LanProtocolV3, _Packet
        key = hashlib.sha256(b"fuzz key").digest()

        class _T:
            def get_extra_info(self, *_a):
                return ("10.0.0.1", 6444)

            def is_closing(self):
                return False

        def one(data: bytes) -> None:
            stats["execs"] += 1
            fdp = atheris.FuzzedDataProvider(data)
            mode = fdp.ConsumeIntInRange(0, 3)
            recipe = None
            if mode == 0:
                # V2: arbitrary ciphertext, optional length-field override, signed or not
                ct = fdp.ConsumeBytes(fdp.ConsumeIntInRange(0, 64))
                recipe = {"t": "v2", "body": "ct", "ct": ct.hex(), "sign": fdp.PickValueInList(["ok", "ok", "bad"])}
                if fdp.ConsumeBool():
                    recipe["lenfield"] = fdp.ConsumeIntInRange(0, 200)
                if fdp.ConsumeBool():
                    recipe["trunc"] = fdp.ConsumeIntInRange(0, 120)
            elif mode == 1:
                plain = fdp.ConsumeBytes(fdp.ConsumeIntInRange(0, 48))
                recipe = {"t": "v2", "body": "plain", "plain": plain.hex(), "sign": "ok"}
            elif mode == 2:
                inner = fdp.ConsumeBytes(fdp.ConsumeIntInRange(0, 80))
                recipe = {"t": "v3", "ptype": fdp.ConsumeIntInRange(0, 15), "inner": {"t": "raw", "data": inner.hex()},
                          "enc": fdp.PickValueInList(["ok", "clear", "ct", "wrongkey"]), "tag": fdp.PickValueInList(["ok", "ok", "bad", "none"]),
                          "pad": fdp.ConsumeIntInRange(0, 15), "ct": fdp.ConsumeBytes(fdp.ConsumeIntInRange(0, 64)).hex()}
                if fdp.ConsumeBool():
                    recipe["size"] = fdp.ConsumeIntInRange(0, 300)
                if fdp.ConsumeBool():
                    recipe["fixsize"] = True
            else:
                recipe = {"t": "raw", "data": fdp.ConsumeBytes(fdp.ConsumeIntInRange(0, 120)).hex()}
            from . import hostile
            pkt = hostile.build(recipe, key)
            authed = fdp.ConsumeBool()
            version = 2 if recipe["t"] == "v2" and mode in (0, 1) and fdp.ConsumeBool() else 3
            try:
                if version == 2:
                    _Packet.decode(pkt)
                else:
                    p = _LanProtocolV3()
                    p.connection_made(_T())
                    if authed:
                        p._local_key = key
                    p.data_received(pkt)
                    while not p._queue.empty():
                        raw = p._queue.get_nowait()
                        with memoryview(raw) as mv:
                            inner_bytes = p._process_packet(mv)
                        _Packet.decode(inner_bytes)
            except ProtocolError:
                return
            except Exception as e:
                report({"version": version, "phase": "send" if authed else "auth", "api": "lan", "hostile": recipe, "cuts": []},
                       f"fuzz/escapes/{type(e).__name__}", f"{e!r} from the transport decoders for hostile packet {pkt.hex()[:160]}")
    elif target == "c18":
        # discovery replies: raw bytes, or a fuzzer-chosen plaintext inside a correctly encrypted and signed V2 / V3
        # envelope, or a well-formed body with a few bytes overwritten / cut.  Oracle: handling the datagram and the
        # per-device task it starts never raises (the responder is omitted or reported, nothing else).
        import asyncio
        from msmart.discover import Discover, _DiscoverProtocol
        from . import discsim
        loop = asyncio.new_event_loop()
        asyncio.set_event_loop(loop)

        async def _no_tcp(*a, **kw):
            raise OSError(113, "no route to host")
        loop.create_connection = _no_tcp            # (V1/XML replies are queried over TCP: nothing to reach here)
        body_ok = rc.discovery_body("10.0.9.1", 6444, "000000P0000000Q1F0C9D153F7B40000", "net_ac_F7B4", bytes(20))

        async def handle(dgram: bytes):
            Discover._auto_connect = False
            proto = _DiscoverProtocol()
            proto.datagram_received(dgram, ("10.0.9.1", 6445))
            out = []
            for t in list(proto.tasks):
                out.append(await t)
            return out

        def one(data: bytes) -> None:
            stats["execs"] += 1
            fdp = atheris.FuzzedDataProvider(data)
            mode = fdp.ConsumeIntInRange(0, 5)
            if mode == 0:
                dgram = fdp.ConsumeBytes(fdp.ConsumeIntInRange(0, 160))
            elif mode == 1:
                dgram = fdp.PickValueInList([b"\x5a\x5a", b"\x83\x70", b"<"]) + fdp.ConsumeBytes(fdp.ConsumeIntInRange(0, 160))
            elif mode in (2, 3):
                body = fdp.ConsumeBytes(fdp.ConsumeIntInRange(0, 120))
                dgram = discsim.envelope(body, mode)
            else:
                b = bytearray(body_ok)
                for _ in range(fdp.ConsumeIntInRange(1, 4)):
                    if b:
                        b[fdp.ConsumeIntInRange(0, len(b) - 1)] = fdp.ConsumeIntInRange(0, 255)
                if fdp.ConsumeBool():
                    b = b[:fdp.ConsumeIntInRange(0, len(b))]
                dgram = discsim.envelope(bytes(b), 2 + fdp.ConsumeIntInRange(0, 1))
                if mode == 5 and dgram:
                    d = bytearray(dgram)
                    d[fdp.ConsumeIntInRange(0, len(d) - 1)] ^= 1 << fdp.ConsumeIntInRange(0, 7)
                    dgram = bytes(d)
            try:
                r_ = loop.run_until_complete(handle(dgram))
                if os.environ.get("VF_FUZZ_DEBUG"): print("DBG", mode, len(dgram), r_, file=sys.stderr)
            except BaseException as e:
                good = {"ip": "10.0.0.10", "id": 0x10203040, "port": 6444, "sn": "SN" + "0" * 30, "tt": 0xAC, "suffix": "A0B", "version": 2,
                        "listen_port": 6445, "extra": bytes(16).hex(), "good": True, "kind": "good"}
                bad = {"ip": "10.0.9.1", "good": False, "kind": "random", "args": [dgram.hex()], "listen_port": 6445}
                report({"hosts": [good, bad], "order": [1, 0]}, f"fuzz/raises/{type(e).__name__}", f"{e!r} while handling discovery reply {dgram.hex()[:200]}")

    elif target == "c04":
        # V3 stream reassembly: the fuzzer chooses packets (sizes, bodies that may contain the marker), marker-free
        # garbage prefixes and the segmentation; every packet must be delivered exactly once, complete, in order and
        # as soon as its last byte has arrived.
        from msmart.lan import _LanProtocolV3

        class _T:
            def get_extra_info(self, *_a):
                return ("10.0.0.1", 6444)

            def is_closing(self):
                return False

        def one(data: bytes) -> None:
            stats["execs"] += 1
            fdp = atheris.FuzzedDataProvider(data)
            items = []
            for _ in range(fdp.ConsumeIntInRange(1, 4)):
                g = bytes(x for x in fdp.ConsumeBytes(fdp.ConsumeIntInRange(0, 12)))
                g = g.replace(b"\x83\x70", b"\x83\x71")
                if g.endswith(b"\x83"):
                    g = g[:-1] + b"\x84"
                size = fdp.PickValueInList([0, 1, 2, 6, 8, 30, 62, fdp.ConsumeIntInRange(0, 300)])
                body = fdp.ConsumeBytes(size)
                body = body + bytes(size - len(body))
                items.append({"garbage": g.hex(), "body": body.hex(), "pad": fdp.ConsumeIntInRange(0, 15), "type": fdp.ConsumeIntInRange(0, 15),
                              "cnt": "%04x" % fdp.ConsumeIntInRange(0, 0xFFFF)})
            stream = bytearray()
            spans = []
            for it in items:
                stream += bytes.fromhex(it["garbage"])
                body = bytes.fromhex(it["body"])
                pkt = rc.v3_header(len(body), it["pad"], it["type"]) + bytes.fromhex(it["cnt"]) + body
                spans.append((len(stream), len(stream) + len(pkt), pkt))
                stream += pkt
            ncuts = fdp.ConsumeIntInRange(0, 8)
            cuts = sorted({fdp.ConsumeIntInRange(1, max(1, len(stream) - 1)) for _ in range(ncuts)}) if len(stream) > 1 else []
            case = {"level": 1, "items": items, "cuts": cuts}
            proto = _LanProtocolV3()
            proto.connection_made(_T())
            bounds = [0] + [c for c in cuts if 0 < c < len(stream)] + [len(stream)]
            for a, b in zip(bounds, bounds[1:]):
                try:
                    proto.data_received(bytes(stream[a:b]))
                except Exception as e:
                    report(case, f"l1/raises/{type(e).__name__}", f"data_received raised {e!r} at chunk [{a}:{b}]")
                got = []
                while not proto._queue.empty():
                    got.append(proto._queue.get_nowait())
                want = [p for (s_, e_, p) in spans if a < e_ <= b]
                if got != want:
                    report(case, "l1/delivery", f"after chunk [{a}:{b}] got {[g.hex()[:40] for g in got]} want {[w.hex()[:40] for w in want]}")
    else:
        raise SystemExit(f"unknown target {target}")

    atheris.Setup(args, one)
    try:
        atheris.Fuzz()
    finally:
        pass


if __name__ == "__main__":
    main()
