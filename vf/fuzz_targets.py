"""Coverage-guided fuzz targets (atheris / libFuzzer) for C09 and C14 -- an additional search in the thorough tier.

Run as a subprocess:  python -m vf.fuzz_targets <c09|c14> <out.json> [libFuzzer args...]

The target decodes fuzzer bytes through a FuzzedDataProvider layer into *structured* choices (template, fields,
re-sign / re-encrypt) so the fuzzer gets past signatures and reaches the logic; the semantic oracle is inside the
target.  On a violation the offending case is written to <out.json> (a normal replay case for the property) and the
process exits with status 77; libFuzzer's own crash handling is not used.
"""
from __future__ import annotations

import json
import os
import sys


def _setup():
    here = os.path.dirname(os.path.dirname(os.path.abspath(__file__)))
    deps = os.path.join(here, ".deps")
    if deps not in sys.path:
        sys.path.append(deps)
    import atheris
    from . import harness
    repo = harness.REPO
    if repo not in sys.path:
        sys.path.insert(0, repo)
    with atheris.instrument_imports(include=["msmart"]):
        import msmart.lan  # noqa: F401
        import msmart.device.AC.command  # noqa: F401
        import msmart.device.AC.device  # noqa: F401
        import msmart.base_device  # noqa: F401
    harness.setup()
    return atheris


def main() -> None:
    target, out_path = sys.argv[1], sys.argv[2]
    args = [sys.argv[0]] + sys.argv[3:]
    atheris = _setup()
    from . import refcodec as rc
    stats = {"execs": 0, "interesting": 0}

    def report(case, bucket, detail):
        with open(out_path, "w") as f:
            json.dump({"bucket": bucket, "detail": detail, "case": case, "execs": stats["execs"]}, f)
        sys.stdout.flush()
        os._exit(77)

    if target == "c14":
        from msmart.device import AirConditioner as AC
        from msmart.device.AC.command import CapabilitiesResponse, InvalidResponseException, Response
        from msmart.frame import InvalidFrameException

        def one(data: bytes) -> None:
            stats["execs"] += 1
            fdp = atheris.FuzzedDataProvider(data)
            ftype = fdp.ConsumeIntInRange(0, 7)
            rid = fdp.PickValueInList([0xC0, 0xC1, 0xB5, 0xB1, 0xB0, fdp.ConsumeIntInRange(0, 255)])
            style = fdp.PickValueInList(["crc", "sum"])
            body = bytes([rid]) + fdp.ConsumeBytes(fdp.ConsumeIntInRange(0, 90))
            frame = rc.frame_build(ftype, body, check=style, proto=3)
            ac = AC(ip="10.0.0.9", port=6444, device_id=1)
            try:
                resp = Response.construct(frame)
            except (InvalidFrameException, InvalidResponseException):
                return
            except Exception as e:
                report({"op": "refresh", "good": False, "pre": [{"t": "hex", "hex": frame.hex()}], "post": []},
                       f"raises/{type(e).__name__}@construct", f"Response.construct raised {e!r} for {frame.hex()}")
            stats["interesting"] += 1
            try:
                ac._update_state(resp)
                if isinstance(resp, CapabilitiesResponse):
                    ac._update_capabilities(resp)
                    for name in dir(type(resp)):
                        if not name.startswith("_") and isinstance(getattr(type(resp), name), property):
                            getattr(resp, name)
                ac.to_dict()
            except Exception as e:
                report({"op": "caps" if isinstance(resp, CapabilitiesResponse) else "refresh", "good": False,
                        "pre": [{"t": "hex", "hex": frame.hex()}], "post": []},
                       f"raises/{type(e).__name__}@update", f"applying the response raised {e!r} for {frame.hex()}")

    elif target == "c09":
        import hashlib
        from msmart.lan import ProtocolError, _LanProtocolV3, _Packet
        key = hashlib.sha256(b"fuzz key").digest()

        class _T:
            def get_extra_info(self, *_a):
                return ("10.0.0.1", 6444)

            def is_closing(self):
                return False

        def one(data: bytes) -> None:
            stats["execs"] += 1
            fdp = atheris.FuzzedDataProvider(data)
            mode = fdp.ConsumeIntInRange(0, 3)
            recipe = None
            if mode == 0:
                # V2: arbitrary ciphertext, optional length-field override, signed or not
                ct = fdp.ConsumeBytes(fdp.ConsumeIntInRange(0, 64))
                recipe = {"t": "v2", "body": "ct", "ct": ct.hex(), "sign": fdp.PickValueInList(["ok", "ok", "bad"])}
                if fdp.ConsumeBool():
                    recipe["lenfield"] = fdp.ConsumeIntInRange(0, 200)
                if fdp.ConsumeBool():
                    recipe["trunc"] = fdp.ConsumeIntInRange(0, 120)
            elif mode == 1:
                plain = fdp.ConsumeBytes(fdp.ConsumeIntInRange(0, 48))
                recipe = {"t": "v2", "body": "plain", "plain": plain.hex(), "sign": "ok"}
            elif mode == 2:
                inner = fdp.ConsumeBytes(fdp.ConsumeIntInRange(0, 80))
                recipe = {"t": "v3", "ptype": fdp.ConsumeIntInRange(0, 15), "inner": {"t": "raw", "data": inner.hex()},
                          "enc": fdp.PickValueInList(["ok", "clear", "ct", "wrongkey"]), "tag": fdp.PickValueInList(["ok", "ok", "bad", "none"]),
                          "pad": fdp.ConsumeIntInRange(0, 15), "ct": fdp.ConsumeBytes(fdp.ConsumeIntInRange(0, 64)).hex()}
                if fdp.ConsumeBool():
                    recipe["size"] = fdp.ConsumeIntInRange(0, 300)
                if fdp.ConsumeBool():
                    recipe["fixsize"] = True
            else:
                recipe = {"t": "raw", "data": fdp.ConsumeBytes(fdp.ConsumeIntInRange(0, 120)).hex()}
            from . import hostile
            pkt = hostile.build(recipe, key)
            authed = fdp.ConsumeBool()
            version = 2 if recipe["t"] == "v2" and mode in (0, 1) and fdp.ConsumeBool() else 3
            try:
                if version == 2:
                    _Packet.decode(pkt)
                else:
                    p = _LanProtocolV3()
                    p.connection_made(_T())
                    if authed:
                        p._local_key = key
                    p.data_received(pkt)
                    while not p._queue.empty():
                        raw = p._queue.get_nowait()
                        with memoryview(raw) as mv:
                            inner_bytes = p._process_packet(mv)
                        _Packet.decode(inner_bytes)
            except ProtocolError:
                return
            except Exception as e:
                report({"version": version, "phase": "send" if authed else "auth", "api": "lan", "hostile": recipe, "cuts": []},
                       f"fuzz/escapes/{type(e).__name__}", f"{e!r} from the transport decoders for hostile packet {pkt.hex()[:160]}")
    else:
        raise SystemExit(f"unknown target {target}")

    atheris.Setup(args, one)
    try:
        atheris.Fuzz()
    finally:
        pass


if __name__ == "__main__":
    main()
