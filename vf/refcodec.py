"""Independent reference implementation of the Midea LAN wire formats.

Written from the packet layout comments, the vendor Lua reference and public protocol
notes.  Nothing in here imports ``msmart``.  Trusted base shared with the code under
test: the AES single-block primitive of pycryptodome (checked against FIPS-197 vectors
in ``selftest``), ``hashlib.md5`` and ``hashlib.sha256``.
"""
from __future__ import annotations

import hashlib
from dataclasses import dataclass, field
from typing import Optional

from Crypto.Cipher import AES as _AES  # single block primitive only

# ----------------------------------------------------------------------------- keys
# Literal constants (deliberately not read from msmart.lan.Security)
V2_SIGN_KEY = b"xhdiwjnchekd4d512chdjx5d8e4c394D2D7S"
V2_ENC_KEY = hashlib.md5(V2_SIGN_KEY).digest()

# The well known discovery probe (public constant used by every Midea LAN client)
DISCOVERY_PROBE = bytes.fromhex(
    "5a5a011148009200000000000000000000000000000000000000000000000000"
    "00000000000000007f75bd6b3e4f8b762e849c6e578d6590036e9d4342a50f1f"
    "569eb8ec918e92e5")


class RefError(Exception):
    """The reference decoder rejects the input."""


# ----------------------------------------------------------------------------- AES
def _blk_enc(key: bytes, block: bytes) -> bytes:
    assert len(block) == 16
    return _AES.new(key, _AES.MODE_ECB).encrypt(block)


def _blk_dec(key: bytes, block: bytes) -> bytes:
    assert len(block) == 16
    return _AES.new(key, _AES.MODE_ECB).decrypt(block)


def _xor(a: bytes, b: bytes) -> bytes:
    return bytes(x ^ y for x, y in zip(a, b))


class _Ecb:
    """ECB over many blocks with a cached cipher object for one key (speed)."""

    def __init__(self, key: bytes) -> None:
        self._c = _AES.new(key, _AES.MODE_ECB)

    def enc(self, data: bytes) -> bytes:
        if len(data) % 16:
            raise RefError("ECB length")
        return b"".join(self._c.encrypt(data[i:i + 16]) for i in range(0, len(data), 16))

    def dec(self, data: bytes) -> bytes:
        if len(data) % 16:
            raise RefError("ECB length")
        return b"".join(self._c.decrypt(data[i:i + 16]) for i in range(0, len(data), 16))


_V2 = _Ecb(V2_ENC_KEY)


def cbc0_encrypt(key: bytes, data: bytes) -> bytes:
    """AES-CBC with an all-zero IV, no padding."""
    if len(data) % 16:
        raise RefError("CBC length")
    c = _AES.new(key, _AES.MODE_ECB)
    prev = bytes(16)
    out = bytearray()
    for i in range(0, len(data), 16):
        prev = c.encrypt(_xor(data[i:i + 16], prev))
        out += prev
    return bytes(out)


def cbc0_decrypt(key: bytes, data: bytes) -> bytes:
    if len(data) % 16:
        raise RefError("CBC length")
    c = _AES.new(key, _AES.MODE_ECB)
    prev = bytes(16)
    out = bytearray()
    for i in range(0, len(data), 16):
        blk = data[i:i + 16]
        out += _xor(c.decrypt(blk), prev)
        prev = blk
    return bytes(out)


def pkcs7_pad(data: bytes) -> bytes:
    n = 16 - len(data) % 16
    return data + bytes([n]) * n


def pkcs7_unpad(data: bytes) -> bytes:
    if not data or len(data) % 16:
        raise RefError("PKCS7 length")
    n = data[-1]
    if n < 1 or n > 16 or data[-n:] != bytes([n]) * n:
        raise RefError("PKCS7 padding")
    return data[:-n]


def v2_encrypt(frame: bytes) -> bytes:
    return _V2.enc(pkcs7_pad(frame))


def v2_decrypt(data: bytes) -> bytes:
    return pkcs7_unpad(_V2.dec(data))


def v2_sign(data: bytes) -> bytes:
    return hashlib.md5(data + V2_SIGN_KEY).digest()


# ----------------------------------------------------------------------------- V2
@dataclass
class V2Packet:
    length: int
    msg_type: bytes
    magic: bytes
    message_id: bytes
    timestamp: bytes
    device_id: int
    reserved: bytes
    ciphertext: bytes
    signature: bytes
    frame: bytes


def v2_encode(device_id: int, frame: bytes, *, timestamp: bytes = bytes(8),
              message_id: bytes = bytes(4), magic: bytes = b"\x20\x00",
              reserved: bytes = bytes(12), msg_type: bytes = b"\x01\x11",
              ciphertext: Optional[bytes] = None, sign: bool = True) -> bytes:
    """Build a V2 packet.  ``ciphertext`` overrides the encrypted payload (for hostile
    peers that sign garbage)."""
    assert len(timestamp) == 8 and len(message_id) == 4 and len(magic) == 2 and len(reserved) == 12
    body = v2_encrypt(frame) if ciphertext is None else ciphertext
    total = 40 + len(body) + 16
    hdr = b"\x5a\x5a" + msg_type + bytes([total & 0xFF, (total >> 8) & 0xFF]) + magic
    hdr += message_id + timestamp
    hdr += bytes((device_id >> (8 * i)) & 0xFF for i in range(8))
    hdr += reserved
    pkt = hdr + body
    return pkt + (v2_sign(pkt) if sign else bytes(16))


def v2_decode(packet: bytes) -> V2Packet:
    """Strict decode: exact length, marker, type, signature, padding."""
    if len(packet) < 56:
        raise RefError("short")
    if packet[0:2] != b"\x5a\x5a":
        raise RefError("marker")
    length = packet[4] | (packet[5] << 8)
    if length != len(packet):
        raise RefError(f"length field {length} != {len(packet)}")
    if v2_sign(packet[:-16]) != packet[-16:]:
        raise RefError("signature")
    ct = packet[40:-16]
    frame = v2_decrypt(ct)
    dev = 0
    for i in range(8):
        dev |= packet[20 + i] << (8 * i)
    return V2Packet(length=length, msg_type=packet[2:4], magic=packet[6:8], message_id=packet[8:12],
                    timestamp=packet[12:20], device_id=dev, reserved=packet[28:40], ciphertext=ct,
                    signature=packet[-16:], frame=frame)


def v2_split_stream(buf: bytearray, garbage: Optional[list] = None) -> list[bytes]:
    """Device-side reassembly of a V2 byte stream: returns complete packets, leaves rest in buf.
    Bytes that cannot belong to a packet are appended to ``garbage`` (if given)."""
    out = []
    while True:
        i = buf.find(b"\x5a\x5a")
        if i < 0:
            keep = 1 if buf and buf[-1] == 0x5A else 0
            if garbage is not None and len(buf) > keep:
                garbage.append(bytes(buf[:len(buf) - keep]))
            del buf[:len(buf) - keep]
            return out
        if i:
            if garbage is not None:
                garbage.append(bytes(buf[:i]))
            del buf[:i]
        if len(buf) < 6:
            return out
        n = buf[4] | (buf[5] << 8)
        if n < 56:
            del buf[:2]
            continue
        if len(buf) < n:
            return out
        out.append(bytes(buf[:n]))
        del buf[:n]


# ----------------------------------------------------------------------------- V3
T_HANDSHAKE_REQ = 0x0
T_HANDSHAKE_RESP = 0x1
T_ENC_RESP = 0x3
T_ENC_REQ = 0x6
T_ERROR = 0xF


@dataclass
class V3Packet:
    ptype: int
    pad: int
    size_field: int
    counter: int
    payload: bytes          # decrypted payload without counter and padding (or raw body for clear types)
    tag_valid: Optional[bool]
    raw: bytes
    notes: list = field(default_factory=list)


def v3_header(size: int, pad: int, ptype: int) -> bytes:
    return b"\x83\x70" + bytes([(size >> 8) & 0xFF, size & 0xFF, 0x20, ((pad & 0xF) << 4) | (ptype & 0xF)])


def v3_split_stream(buf: bytearray, garbage: Optional[list] = None) -> list[bytes]:
    out = []
    while True:
        i = buf.find(b"\x83\x70")
        if i < 0:
            # keep a possible first marker byte
            keep = 1 if buf and buf[-1] == 0x83 else 0
            if garbage is not None and len(buf) > keep:
                garbage.append(bytes(buf[:len(buf) - keep]))
            del buf[:len(buf) - keep]
            return out
        if i:
            if garbage is not None:
                garbage.append(bytes(buf[:i]))
            del buf[:i]
        if len(buf) < 6:
            return out
        total = ((buf[2] << 8) | buf[3]) + 8
        if len(buf) < total:
            return out
        out.append(bytes(buf[:total]))
        del buf[:total]


def v3_pad_for(length: int) -> int:
    """Padding so that 2 byte counter + payload is block aligned (0 when already aligned)."""
    return (16 - (length + 2) % 16) % 16


def v3_encode_encrypted(key: bytes, counter: int, payload: bytes, ptype: int, *,
                        padbytes: Optional[bytes] = None) -> bytes:
    pad = v3_pad_for(len(payload))
    if padbytes is None:
        padbytes = bytes((7 * i + 1) & 0xFF for i in range(pad))
    assert len(padbytes) == pad
    size = len(payload) + pad + 32
    hdr = v3_header(size, pad, ptype)
    plain = bytes([(counter >> 8) & 0xFF, counter & 0xFF]) + payload + padbytes
    tag = hashlib.sha256(hdr + plain).digest()
    return hdr + cbc0_encrypt(key, plain) + tag


def v3_encode_response(key: bytes, counter: int, payload: bytes, **kw) -> bytes:
    return v3_encode_encrypted(key, counter, payload, T_ENC_RESP, **kw)


def v3_encode_request(key: bytes, counter: int, payload: bytes, **kw) -> bytes:
    return v3_encode_encrypted(key, counter, payload, T_ENC_REQ, **kw)


def v3_decode(packet: bytes, key: Optional[bytes]) -> V3Packet:
    """Decode any V3 packet.  Encrypted types need ``key``; raises RefError on structural
    problems, reports tag validity in the result for encrypted packets."""
    if len(packet) < 8:
        raise RefError("short")
    if packet[0:2] != b"\x83\x70":
        raise RefError("marker")
    if packet[4] != 0x20:
        raise RefError("magic")
    size = (packet[2] << 8) | packet[3]
    if len(packet) != size + 8:
        raise RefError(f"size field {size}+8 != {len(packet)}")
    ptype = packet[5] & 0xF
    pad = packet[5] >> 4
    if ptype in (T_ENC_REQ, T_ENC_RESP):
        if key is None:
            raise RefError("no key")
        ct = packet[6:-32]
        if len(ct) % 16 or len(ct) < 16:
            raise RefError("ciphertext length")
        plain = cbc0_decrypt(key, ct)
        tag_ok = hashlib.sha256(packet[:6] + plain).digest() == packet[-32:]
        counter = (plain[0] << 8) | plain[1]
        if pad > len(plain) - 2:
            raise RefError("pad larger than payload")
        body = plain[2:len(plain) - pad]
        return V3Packet(ptype, pad, size, counter, body, tag_ok, packet)
    # clear types: 2 byte counter then body
    counter = (packet[6] << 8) | packet[7]
    return V3Packet(ptype, pad, size, counter, packet[8:], None, packet)


def v3_handshake_request(counter: int, token: bytes) -> bytes:
    return v3_header(len(token), 0, T_HANDSHAKE_REQ) + bytes([(counter >> 8) & 0xFF, counter & 0xFF]) + token


def v3_handshake_reply_body(key: bytes, nonce: bytes) -> bytes:
    """64 byte reply body: AES-CBC(key, nonce) || SHA256(nonce)."""
    assert len(nonce) == 32 and len(key) == 32
    return cbc0_encrypt(key, nonce) + hashlib.sha256(nonce).digest()


def v3_session_key(key: bytes, nonce: bytes) -> bytes:
    return _xor(nonce, key)


def v3_clear_packet(ptype: int, counter: int, body: bytes, pad: int = 0) -> bytes:
    return v3_header(len(body), pad, ptype) + bytes([(counter >> 8) & 0xFF, counter & 0xFF]) + body


def v3_handshake_reply(counter: int, body: bytes) -> bytes:
    return v3_clear_packet(T_HANDSHAKE_RESP, counter, body)


def v3_error_packet(counter: int = 0, body: bytes = b"ERROR") -> bytes:
    return v3_clear_packet(T_ERROR, counter, body)


# ----------------------------------------------------------------------------- udpid
def udpid(id_bytes: bytes) -> bytes:
    h = hashlib.sha256(id_bytes).digest()
    return _xor(h[:16], h[16:])


# ----------------------------------------------------------------------------- discovery
@dataclass
class DiscoveryInfo:
    device_id: int
    ip: str
    port: int
    sn: str
    name: str
    version: int
    extra: bytes = b""


def discovery_body(ip: str, port: int, sn: str, name: str, extra: bytes = b"") -> bytes:
    """Plain body of a discovery reply: reversed IPv4, 4 byte LE port, 32 byte serial,
    name length, name, then whatever the firmware appends."""
    a = [int(x) for x in ip.split(".")]
    assert len(a) == 4
    snb = sn.encode("ascii")
    assert len(snb) == 32
    nb = name.encode("ascii")
    return bytes(reversed(a)) + bytes([port & 0xFF, (port >> 8) & 0xFF, 0, 0]) + snb + bytes([len(nb)]) + nb + extra


def discovery_reply(info: DiscoveryInfo, *, magic: bytes = b"\x7a\x80", timestamp: bytes = bytes(8),
                    message_id: bytes = bytes(4), reserved: bytes = bytes(12),
                    body: Optional[bytes] = None, v3_trailer: bytes = bytes(16),
                    v3_counter: int = 0) -> bytes:
    """Build a V2 discovery reply; for version 3 wrap it into the 8370 envelope (8 byte header
    with type 0xF as seen in captures, 16 trailing bytes)."""
    plain = discovery_body(info.ip, info.port, info.sn, info.name, info.extra) if body is None else body
    ct = _V2.enc(pkcs7_pad(plain))
    total = 40 + len(ct) + 16
    hdr = b"\x5a\x5a\x01\x11" + bytes([total & 0xFF, total >> 8]) + magic + message_id + timestamp
    hdr += bytes((info.device_id >> (8 * i)) & 0xFF for i in range(8)) + reserved
    pkt = hdr + ct
    pkt += v2_sign(pkt)
    if info.version == 2:
        return pkt
    inner = pkt + v3_trailer
    size = len(inner)
    return b"\x83\x70" + bytes([size >> 8, size & 0xFF, 0x20, 0x0F, (v3_counter >> 8) & 0xFF, v3_counter & 0xFF]) + inner


def discovery_parse(data: bytes) -> DiscoveryInfo:
    version = 2
    if data[:2] == b"\x83\x70":
        version = 3
        data = data[8:-16]
    if data[:2] != b"\x5a\x5a":
        raise RefError("marker")
    length = data[4] | (data[5] << 8)
    if length != len(data):
        raise RefError("length")
    if v2_sign(data[:-16]) != data[-16:]:
        raise RefError("signature")
    dev = 0
    for i in range(6):
        dev |= data[20 + i] << (8 * i)
    plain = pkcs7_unpad(_V2.dec(data[40:-16]))
    ip = ".".join(str(b) for b in reversed(plain[0:4]))
    port = plain[4] | (plain[5] << 8) | (plain[6] << 16) | (plain[7] << 24)
    sn = plain[8:40].decode("ascii")
    n = plain[40]
    name = plain[41:41 + n].decode("ascii")
    return DiscoveryInfo(dev, ip, port, sn, name, version, plain[41 + n:])


def probe_ok(datagram: bytes) -> bool:
    """What a device checks before answering a discovery probe."""
    if datagram != DISCOVERY_PROBE:
        return False
    try:
        if v2_sign(datagram[:-16]) != datagram[-16:]:
            return False
        _V2.dec(datagram[40:-16])
    except RefError:
        return False
    return True


# ----------------------------------------------------------------------------- frames
def crc8_bitwise(data: bytes) -> int:
    """Dallas/Maxim CRC-8: poly x^8+x^5+x^4+1 (0x31), reflected (0x8C), init 0."""
    crc = 0
    for b in data:
        crc ^= b
        for _ in range(8):
            crc = (crc >> 1) ^ 0x8C if crc & 1 else crc >> 1
    return crc


_CRC_TABLE = None


def crc8(data: bytes) -> int:
    global _CRC_TABLE
    if _CRC_TABLE is None:
        _CRC_TABLE = [crc8_bitwise(bytes([i])) for i in range(256)]
    c = 0
    for b in data:
        c = _CRC_TABLE[c ^ b]
    return c


def checksum(data: bytes) -> int:
    """Two's complement of the byte sum."""
    return (-sum(data)) & 0xFF


@dataclass
class ParsedFrame:
    appliance: int
    frame_type: int
    proto: int
    body: bytes        # without message id / crc?  no: full body incl. trailing [msgid, crc]
    header: bytes


def frame_parse(frame: bytes, *, need_crc: bool = True) -> ParsedFrame:
    """Strict parser of an appliance frame as a conforming device applies it."""
    if len(frame) < 13:
        raise RefError("frame too short")
    if frame[0] != 0xAA:
        raise RefError("start byte")
    if frame[1] != len(frame) - 1:
        raise RefError(f"length byte {frame[1]} != {len(frame) - 1}")
    if checksum(frame[1:-1]) != frame[-1]:
        raise RefError("checksum")
    body = frame[10:-1]
    if need_crc and crc8_bitwise(body[:-1]) != body[-1]:
        raise RefError("body crc")
    return ParsedFrame(appliance=frame[2], frame_type=frame[9], proto=frame[8], body=body, header=frame[:10])


def frame_build(frame_type: int, body_wo_crc: bytes, *, appliance: int = 0xAC, check: str = "crc",
                proto: int = 0, hdr_fill: bytes = bytes(5)) -> bytes:
    """Build a device->client frame: header, body, body check (crc or additive), checksum."""
    if check == "crc":
        body = body_wo_crc + bytes([crc8(body_wo_crc)])
    elif check == "sum":
        body = body_wo_crc + bytes([checksum(body_wo_crc)])
    elif check == "none":
        body = body_wo_crc
    else:
        raise ValueError(check)
    n = 10 + len(body)
    hdr = bytes([0xAA, n & 0xFF, appliance]) + hdr_fill + bytes([proto, frame_type])
    f = hdr + body
    return f + bytes([checksum(f[1:])])


def frame_fix_checksum(frame: bytes) -> bytes:
    return frame[:-1] + bytes([checksum(frame[1:-1])])
