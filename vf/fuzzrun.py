"""Run an atheris target as a subprocess for one shard and fold its result into the shard's context."""
from __future__ import annotations

import json
import os
import re
import shutil
import subprocess
import sys

ROOT = os.path.dirname(os.path.dirname(os.path.abspath(__file__)))


def run_atheris(ctx, target: str, runs: int, check_case, max_len: int = 256) -> None:
    deps = os.path.join(ROOT, ".deps")
    try:
        sys.path.append(deps)
        import atheris  # noqa: F401
    except Exception as e:
        ctx.notes.append(f"atheris not available ({e!r}): coverage-guided search skipped, Hypothesis result stands")
        return
    finally:
        if deps in sys.path:
            sys.path.remove(deps)
    import tempfile
    base = os.path.join(ROOT, "scratch", "fuzz")
    os.makedirs(base, exist_ok=True)
    work = tempfile.mkdtemp(prefix=f"{target}-{ctx.seed}-{ctx.shard}-", dir=base)     # unique: the same check may run concurrently
    os.makedirs(os.path.join(work, "corpus"))
    out = os.path.join(work, "finding.json")
    seeds = os.path.join(ROOT, "fuzz", f"corpus_{target}")
    cmd = [sys.executable, "-B", "-m", "vf.fuzz_targets", target, out, f"-runs={runs}", f"-seed={(ctx.rng_seed % 2_000_000_000) + 1}",
           f"-max_len={max_len}", "-print_final_stats=1", os.path.join(work, "corpus")]
    if os.path.isdir(seeds) and ctx.shard % 2 == 0:      # half of the shards start from the seed corpus, half from nothing
        cmd.append(seeds)
    env = dict(os.environ, PYTHONPATH=ROOT + os.pathsep + deps + os.pathsep + os.environ.get("PYTHONPATH", ""))
    p = subprocess.run(cmd, cwd=ROOT, capture_output=True, text=True, env=env)
    text = p.stderr + p.stdout
    m = re.search(r"stat::number_of_executed_units:\s*(\d+)", text) or re.search(r"Done (\d+) runs", text)
    execs = int(m.group(1)) if m else 0
    cov = re.findall(r"cov: (\d+)", text)
    ctx.extra["atheris_execs_" + target] = ctx.extra.get("atheris_execs_" + target, 0) + execs
    if cov:
        ctx.extra["atheris_cov_" + target] = max(ctx.extra.get("atheris_cov_" + target, 0), int(cov[-1]))
    if p.returncode == 77 and os.path.exists(out):
        f = json.load(open(out))
        ctx.extra["atheris_execs_" + target] += f.get("execs", 0)
        # confirm through the property's own check (full stack) so the replay file is a normal case
        v = check_case(f["case"])
        if v is not None:
            ctx.violation(v[0], f["case"], v[1])
        else:
            ctx.violation(f["bucket"], f["case"], "[decoder level only, not reproduced through the full stack] " + f["detail"])
    elif p.returncode != 0:
        ctx.notes.append(f"atheris {target} shard {ctx.shard} exited {p.returncode}: {text[-300:]}")
    shutil.rmtree(work, ignore_errors=True)
