"""Runner: CLI, tiers, seeds, sharding, evidence, replay, known findings, exit codes.

    ./check C07 quick | thorough
    ./check C07 --replay replays/C07-....json

exit 0  property held on everything explored (KNOWN-FINDING lines for listed findings)
exit 1  at least one violation not listed in known_findings.json (VIOLATION lines)
exit 2  harness error (import failure, self-test failure, generator health check, ...)
"""
from __future__ import annotations

import argparse
import collections
import hashlib
import importlib
import json
import multiprocessing
import os
import sys
import time
import traceback
from typing import Any, Callable, Optional

ROOT = os.path.dirname(os.path.dirname(os.path.abspath(__file__)))
ALL_IDS = [f"C{n:02d}" for n in range(1, 21)]


class HarnessError(Exception):
    pass


class _Violation(Exception):
    def __init__(self, bucket: str) -> None:
        super().__init__(bucket)
        self.bucket = bucket


def _derive_seed(seed: int, shard: int, salt: str = "") -> int:
    h = hashlib.sha256(f"{seed}/{shard}/{salt}".encode()).digest()
    return int.from_bytes(h[:8], "big")


def jsonable(x: Any) -> Any:
    if isinstance(x, (bytes, bytearray, memoryview)):
        return bytes(x).hex()
    if isinstance(x, dict):
        return {str(k): jsonable(v) for k, v in x.items()}
    if isinstance(x, (list, tuple)):
        return [jsonable(v) for v in x]
    if isinstance(x, (set, frozenset)):
        return sorted(jsonable(v) for v in x)
    if isinstance(x, float) or isinstance(x, int) or isinstance(x, str) or x is None or isinstance(x, bool):
        return x
    return repr(x)


def case_key(case: Any) -> int:
    return hash(json.dumps(jsonable(case), sort_keys=True, separators=(",", ":")))


class _CaseCpuLimit(BaseException):
    """Raised (by a CPU-time interval timer) inside a case that has consumed far more processor time than any case needs."""


CASE_CPU_LIMIT_S = float(os.environ.get("VERIF_CASE_CPU_S", "120"))     # main() lowers it to 30 s for the quick tier (no quick case needs 8 s)


_STALLS: list = []          # stall verdicts of this worker process


def _on_cpu_limit(signum, frame):
    raise _CaseCpuLimit()


def guarded(fn: Callable[[Any], Optional[tuple]], case: Any) -> Optional[tuple]:
    """Run a check function; an exception that was raised in, or below, code of the repository under test is a
    violation of the property being exercised (the library blew up on a legal use); an exception that never
    entered the repository is a harness error and propagates.

    Every case runs on virtual time, so a case that burns two minutes of *processor* time of its own process (measured
    by ITIMER_VIRTUAL, hence independent of machine load) is in a loop that does not terminate.  When the loop is in the
    library (deepest frame in the repository under test) that is a violation; anywhere else it is a harness error."""
    import signal
    if len(_STALLS) >= 3:
        # the library keeps running away: every further case of this shard would cost another full limit; report and skip
        return _STALLS[-1]
    armed = False
    try:
        signal.signal(signal.SIGVTALRM, _on_cpu_limit)
        signal.setitimer(signal.ITIMER_VIRTUAL, CASE_CPU_LIMIT_S)
        armed = True
    except (ValueError, OSError, AttributeError):
        pass            # not in the main thread / not available: no guard
    try:
        try:
            return fn(case)
        finally:
            if armed:
                signal.setitimer(signal.ITIMER_VIRTUAL, 0)
    except _Violation:
        raise
    except (KeyboardInterrupt, SystemExit, GeneratorExit):
        raise
    except BaseException as e:          # incl. asyncio.CancelledError leaking out of the library to a caller that cancelled nothing
        from . import harness
        tb = e.__traceback__
        repo = os.path.realpath(harness.REPO) + os.sep
        inner_repo = None
        while tb is not None:
            if os.path.realpath(tb.tb_frame.f_code.co_filename).startswith(repo):
                inner_repo = tb          # deepest frame that belongs to the repository under test
            tb = tb.tb_next
        if inner_repo is not None:
            code = inner_repo.tb_frame.f_code
            if isinstance(e, _CaseCpuLimit):
                v = (f"stall/cpu-limit@{os.path.basename(code.co_filename)}:{code.co_name}",
                     f"the library did not come back: more than {CASE_CPU_LIMIT_S:.0f} s of processor time spent, last seen in {code.co_name} ({os.path.basename(code.co_filename)})")
                _STALLS.append(v)
                return v
            return (f"crash/{type(e).__name__}@{os.path.basename(code.co_filename)}:{code.co_name}",
                    f"unexpected {type(e).__name__} from (or below) the library: {e!r}")
        raise


class Ctx:
    """Per-shard collection context handed to a property module's run()."""

    MAX_SAMPLES_PER_CLASS = 2
    MAX_SAMPLES = 12

    def __init__(self, prop_id: str, tier: str, seed: int, shard: int, nshards: int, known: list) -> None:
        self.prop_id = prop_id
        self.tier = tier
        self.seed = seed
        self.shard = shard
        self.nshards = nshards
        self.known = known
        self.evaluations = 0
        self.classes: collections.Counter = collections.Counter()
        self.nontrivial: set = set()
        self.samples: dict = {}
        self.violations: dict = {}         # bucket -> {"case":..., "detail":..., "count": n}
        self.known_hits: dict = {}         # finding index -> count
        self.excluded_known = 0
        self.notes: list = []
        self.assumptions: list = []
        self.exhaustive: Optional[bool] = None
        self.sweeps: dict = {}             # name -> {"size": n, "complete": bool}
        self.extra: dict = {}
        self.rng_seed = _derive_seed(seed, shard, prop_id)

    # -- sizes
    @property
    def quick(self) -> bool:
        return self.tier == "quick"

    def n(self, quick: int, thorough: int) -> int:
        """Per-shard case count for a budget given as totals per tier."""
        total = quick if self.quick else thorough
        return max(1, total // self.nshards)

    def mine(self, i: int) -> bool:
        return i % self.nshards == self.shard

    # -- accounting
    def case(self, key: Any, nontrivial: bool, cls: Optional[str] = None) -> None:
        self.evaluations += 1
        if cls is not None:
            self.classes[cls] += 1
        if nontrivial:
            self.nontrivial.add(key if isinstance(key, int) else hash(key))

    def label(self, cls: str, n: int = 1) -> None:
        self.classes[cls] += n

    def sample(self, cls: str, case: Any) -> None:
        lst = self.samples.setdefault(cls, [])
        if len(lst) < self.MAX_SAMPLES_PER_CLASS:
            jc = jsonable(case)
            if jc not in lst:
                lst.append(jc)

    def sweep(self, name: str, size: int, complete: bool) -> None:
        self.sweeps[name] = {"size": size, "complete": complete}

    # -- known findings
    def match_known(self, bucket: str, case: Any) -> Optional[int]:
        for idx, f in enumerate(self.known):
            if f.get("kind") != "finding":
                continue
            fb = f.get("bucket", "")
            if not (bucket == fb or (fb.endswith("*") and bucket.startswith(fb[:-1]))):
                continue
            where = f.get("where", {})
            ok = True
            jc = jsonable(case) if where else None
            for k, allowed in where.items():
                cur = jc
                for part in k.split("."):
                    cur = cur.get(part) if isinstance(cur, dict) else None
                if cur not in allowed:
                    ok = False
                    break
            if ok:
                return idx
        return None

    def violation(self, bucket: str, case: Any, detail: str) -> bool:
        """Record a violation.  Returns True when it is a *new* (unlisted) one."""
        idx = self.match_known(bucket, case)
        if idx is not None:
            self.known_hits[idx] = self.known_hits.get(idx, 0) + 1
            self.excluded_known += 1
            return False
        v = self.violations.get(bucket)
        jc = jsonable(case)
        size = len(json.dumps(jc))
        if v is None:
            self.violations[bucket] = {"case": jc, "detail": str(detail)[:2000], "count": 1, "size": size}
        else:
            v["count"] += 1
            if size < v["size"]:
                v.update(case=jc, detail=str(detail)[:2000], size=size)
        return True

    def check(self, case: Any, fn: Callable[[Any], Optional[tuple]]) -> Optional[tuple]:
        """Run one case of an enumerated sweep through a check function."""
        v = guarded(fn, case)
        if v is not None:
            self.violation(v[0], case, v[1])
        return v

    # -- hypothesis glue
    def hyp(self, name: str, strategy, check: Callable[[Any], Optional[tuple]], examples: int,
            *, shrink: bool = True, max_rounds: int = 6) -> None:
        """Generated-input search: ``check(case)`` returns None or (bucket, detail)."""
        import hypothesis
        from hypothesis import HealthCheck, Phase, given, settings
        from hypothesis.errors import FailedHealthCheck, Flaky, Unsatisfiable

        seen: set = set()
        phases = [Phase.explicit, Phase.generate, Phase.target] + ([Phase.shrink] if shrink else [])
        for rnd in range(max_rounds):
            state: dict = {"bucket": None, "case": None, "detail": None}

            def body(case):
                v = guarded(check, case)
                if v is None:
                    return
                bucket, detail = v
                if bucket in seen:
                    self.classes[f"excluded:{bucket}"] += 1
                    return
                if self.match_known(bucket, case) is not None:
                    self.violation(bucket, case, detail)
                    return
                if state["bucket"] is None:
                    state["bucket"] = bucket
                if bucket != state["bucket"]:
                    return           # another root cause: found in the next round
                state["case"], state["detail"] = case, detail
                raise _Violation(bucket)

            test = given(strategy)(body)
            test = hypothesis.seed(_derive_seed(self.seed, self.shard, f"{self.prop_id}/{name}/{rnd}"))(test)
            test = settings(max_examples=examples, database=None, deadline=None, derandomize=False,
                            report_multiple_bugs=False, phases=phases,
                            suppress_health_check=[HealthCheck.too_slow, HealthCheck.data_too_large,
                                                   HealthCheck.large_base_example,
                                                   HealthCheck.function_scoped_fixture],
                            print_blob=False)(test)
            try:
                test()
            except _Violation as e:
                self.violation(e.bucket, state["case"], state["detail"])
                seen.add(e.bucket)
                continue
            except (FailedHealthCheck, Unsatisfiable) as e:
                raise HarnessError(f"{name}: hypothesis health check: {e}") from e
            except (Flaky, BaseExceptionGroup) as e:
                # the failure depends on state that survives between cases (e.g. a process-wide counter in the library):
                # it did fail for the recorded case, so it is reported, flagged as history dependent
                if state["case"] is None:
                    raise HarnessError(f"{name}: flaky without a recorded failing case: {e!r}") from e
                self.violation(state["bucket"], state["case"], f"[history dependent: not reproduced on immediate re-run] {state['detail']}")
                seen.add(state["bucket"])
                continue
            except Exception as e:
                # an internal error of the generator library while it was shrinking a failure it had already found (seen with
                # hypothesis 6.168: "ValueError: 32 is not in list" out of the text shrinker when a one_of() of two alphabets is
                # involved): the recorded failing case stands, unshrunk
                import traceback
                frames = traceback.extract_tb(e.__traceback__)
                in_lib = bool(frames) and (os.sep + "hypothesis" + os.sep) in frames[-1].filename
                if state["case"] is None or not in_lib:
                    raise
                self.violation(state["bucket"], state["case"], f"[not minimised: the shrinker failed with {e!r}] {state['detail']}")
                seen.add(state["bucket"])
                continue
            break


# ----------------------------------------------------------------------------- known findings
def load_known(prop_id: str) -> list:
    path = os.path.join(ROOT, "known_findings.json")
    if not os.path.exists(path):
        return []
    with open(path) as f:
        data = json.load(f)
    return [e for e in data.get("entries", []) if e.get("property") == prop_id]


# ----------------------------------------------------------------------------- shards
def _run_shard(args) -> dict:
    prop_id, tier, seed, shard, nshards = args
    t0 = time.time()
    try:
        try:
            import resource
            lim = int(os.environ.get("VERIF_WORKER_MEM_GB", "6")) << 30
            resource.setrlimit(resource.RLIMIT_AS, (lim, lim))      # a runaway allocation becomes a MemoryError in the case, not an OOM kill of the worker
        except Exception:
            pass
        from . import harness
        harness.setup()
        mod = importlib.import_module(f"vf.props.{prop_id.lower()}")
        ctx = Ctx(prop_id, tier, seed, shard, nshards, load_known(prop_id))
        # regression tier: committed replay files first (shard 0 only)
        if shard == 0:
            rdir = os.path.join(ROOT, "replays")
            if os.path.isdir(rdir):
                for fn in sorted(os.listdir(rdir)):
                    if fn.startswith(prop_id + "-") and fn.endswith(".json"):
                        with open(os.path.join(rdir, fn)) as f:
                            rep = json.load(f)
                        v = guarded(lambda c: mod.replay(ctx, c), rep["case"])
                        ctx.label("regression_replays")
                        if v is not None:
                            ctx.violation(v[0], rep["case"], v[1])
        mod.run(ctx)
        return {
            "ok": True, "shard": shard, "evaluations": ctx.evaluations, "classes": dict(ctx.classes),
            "nontrivial": ctx.nontrivial, "samples": ctx.samples, "violations": ctx.violations,
            "known_hits": ctx.known_hits, "excluded_known": ctx.excluded_known, "notes": ctx.notes,
            "assumptions": ctx.assumptions, "sweeps": ctx.sweeps, "extra": ctx.extra, "wall": time.time() - t0,
        }
    except (KeyboardInterrupt, SystemExit):
        raise
    except BaseException:               # a worker must always report back: a lost task would hang the whole check
        return {"ok": False, "shard": shard, "error": traceback.format_exc()}


def write_replay(prop_id: str, bucket: str, v: dict) -> str:
    d = os.path.join(ROOT, "found")
    os.makedirs(d, exist_ok=True)
    h = hashlib.sha256(bucket.encode()).hexdigest()[:10]
    path = os.path.join(d, f"{prop_id}-{h}.json")
    tmp = f"{path}.{os.getpid()}.tmp"
    with open(tmp, "w") as f:
        json.dump({"property": prop_id, "bucket": bucket, "detail": v["detail"], "case": v["case"]}, f, indent=1)
    os.replace(tmp, path)      # atomic: the same check may run concurrently (quick and thorough, or several seeds)
    return os.path.relpath(path, ROOT)


def main(argv=None) -> int:
    ap = argparse.ArgumentParser()
    ap.add_argument("prop")
    ap.add_argument("tier", nargs="?", default=os.environ.get("VERIF_TIER", "quick"))
    ap.add_argument("--replay")
    ap.add_argument("--shards", type=int, default=None)
    ap.add_argument("--no-evidence", action="store_true")
    a = ap.parse_args(argv)
    prop_id = a.prop.upper()
    if a.tier not in ("quick", "thorough"):
        print(f"unknown tier {a.tier}", file=sys.stderr)
        return 2
    try:
        seed = int(os.environ.get("VERIF_SEED", "0") or 0)
    except ValueError:
        seed = 0
    t0 = time.time()
    try:
        from . import harness, selftest
        harness.setup()
        selftest.run()
        mod = importlib.import_module(f"vf.props.{prop_id.lower()}")
    except Exception:
        traceback.print_exc()
        print(f"HARNESS-ERROR property={prop_id} setup/self-test failed")
        return 2

    if a.replay:
        ctx = Ctx(prop_id, a.tier, seed, 0, 1, load_known(prop_id))
        with open(a.replay) as f:
            rep = json.load(f)
        try:
            v = guarded(lambda c: mod.replay(ctx, c), rep["case"])
        except Exception:
            traceback.print_exc()
            return 2
        if v is None:
            print(f"replay {a.replay}: property holds on this case")
            return 0
        if ctx.match_known(v[0], rep["case"]) is not None:
            print(f"KNOWN-FINDING: property={prop_id} {v[0]}: {v[1]}")
            return 0
        print(f"bucket: {v[0]}\ndetail: {v[1]}")
        print(f"VIOLATION property={prop_id} replay={a.replay}")
        return 1

    shards_cfg = getattr(mod, "SHARDS", {"quick": 1, "thorough": 16})
    global CASE_CPU_LIMIT_S
    if "VERIF_CASE_CPU_S" not in os.environ and a.tier == "quick":
        CASE_CPU_LIMIT_S = 30.0
    nshards = a.shards or shards_cfg.get(a.tier, 1)
    nshards = max(1, min(nshards, (os.cpu_count() or 1)))
    jobs = [(prop_id, a.tier, seed, s, nshards) for s in range(nshards)]
    if nshards == 1:
        results = [_run_shard(jobs[0])]
    else:
        import concurrent.futures as cf
        mp = multiprocessing.get_context("fork")
        # a budget on the whole run: a hang is a harness error (exit 2), never a silent stall
        budget = float(os.environ.get("VERIF_BUDGET_S", "3600" if a.tier == "quick" else "21600"))
        results = []
        ex = cf.ProcessPoolExecutor(max_workers=nshards, mp_context=mp)
        try:
            futs = [ex.submit(_run_shard, j) for j in jobs]
            deadline = time.time() + budget
            for j, f in zip(jobs, futs):
                try:
                    results.append(f.result(timeout=max(1.0, deadline - time.time())))
                except cf.TimeoutError:
                    results.append({"ok": False, "shard": j[3], "error": f"shard did not finish within the {budget:.0f} s budget of the run"})
                except BaseException as e:      # BrokenProcessPool: a worker died
                    results.append({"ok": False, "shard": j[3], "error": f"worker process failed: {e!r}"})
        finally:
            for proc in list(getattr(ex, "_processes", {}).values()):
                if any(not r["ok"] for r in results):
                    proc.kill()
            ex.shutdown(wait=not any(not r["ok"] for r in results), cancel_futures=True)

    errors = [r for r in results if not r["ok"]]
    if errors:
        for r in errors:
            print(f"--- shard {r['shard']} harness error ---\n{r['error']}")
        print(f"HARNESS-ERROR property={prop_id}")
        return 2

    # merge
    evaluations = sum(r["evaluations"] for r in results)
    classes: collections.Counter = collections.Counter()
    nontrivial: set = set()
    samples: dict = {}
    violations: dict = {}
    known_hits: dict = {}
    excluded = 0
    notes: list = []
    assumptions: list = []
    sweeps: dict = {}
    extra: dict = {}
    for r in results:
        classes.update(r["classes"])
        nontrivial |= r["nontrivial"]
        for k, v in r["samples"].items():
            lst = samples.setdefault(k, [])
            for s in v:
                if len(lst) < Ctx.MAX_SAMPLES_PER_CLASS and s not in lst:
                    lst.append(s)
        for b, v in r["violations"].items():
            cur = violations.get(b)
            if cur is None:
                violations[b] = dict(v)
            else:
                cur["count"] += v["count"]
                if v["size"] < cur["size"]:
                    cur.update(case=v["case"], detail=v["detail"], size=v["size"])
        for k, v in r["known_hits"].items():
            known_hits[k] = known_hits.get(k, 0) + v
        excluded += r["excluded_known"]
        for n in r["notes"]:
            if n not in notes:
                notes.append(n)
        for n in r["assumptions"]:
            if n not in assumptions:
                assumptions.append(n)
        for k, v in r["sweeps"].items():
            cur = sweeps.get(k)
            if cur is None:
                sweeps[k] = dict(v)
            else:
                cur["size"] = max(cur["size"], v["size"])   # every shard reports the size of the whole sweep
                cur["complete"] = cur["complete"] and v["complete"]
        for k, v in r["extra"].items():
            if isinstance(v, (int, float)) and isinstance(extra.get(k, 0), (int, float)):
                extra[k] = extra.get(k, 0) + v
            else:
                extra.setdefault(k, v)

    known = load_known(prop_id)
    wall = time.time() - t0

    # sample list: a couple per class, capped
    flat = []
    for k in sorted(samples):
        for s in samples[k]:
            flat.append({"class": k, "case": s})
    step = max(1, len(flat) // Ctx.MAX_SAMPLES) if len(flat) > Ctx.MAX_SAMPLES else 1
    flat = flat[::step][:Ctx.MAX_SAMPLES]

    exhaustive = bool(sweeps) and all(v["complete"] for v in sweeps.values()) and getattr(mod, "EXHAUSTIVE_ONLY", False)
    evidence = {
        "property_id": prop_id,
        "tier": a.tier,
        "seed": seed,
        "level": mod.LEVEL,
        "coverage": {
            "evaluations": evaluations,
            "distinct_nontrivial": len(nontrivial),
            "rule": mod.RULE,
            "samples": flat,
            "classes": dict(sorted(classes.items())),
            "sweeps": sweeps,
            "exhaustive": exhaustive,
            "excluded_known": excluded,
            "shards": nshards,
            "notes": notes,
            **extra,
        },
        "assumptions": list(getattr(mod, "ASSUMPTIONS", [])) + assumptions,
        "wall_s": round(wall, 2),
        "violations": len(violations),
    }
    if not a.no_evidence:
        os.makedirs(os.path.join(ROOT, "evidence"), exist_ok=True)
        ev_path = os.path.join(ROOT, "evidence", f"{prop_id}.json")
        with open(f"{ev_path}.{os.getpid()}.tmp", "w") as f:
            json.dump(evidence, f, indent=1, sort_keys=False)
            f.write("\n")
        os.replace(f"{ev_path}.{os.getpid()}.tmp", ev_path)

    for idx, cnt in sorted(known_hits.items()):
        print(f"KNOWN-FINDING: property={prop_id} {known[idx].get('what', known[idx].get('bucket'))} (seen {cnt}x this run)")
    print(f"{prop_id} {a.tier} seed={seed}: {evaluations} cases, {len(nontrivial)} distinct non-trivial, "
          f"{len(violations)} violation bucket(s), {wall:.1f}s, shards={nshards}")
    if evaluations == 0 or len(nontrivial) < 2:
        print(f"HARNESS-ERROR property={prop_id} nothing explored")
        return 2
    if violations:
        for b, v in sorted(violations.items()):
            path = write_replay(prop_id, b, v)
            print(f"  bucket {b} ({v['count']}x): {v['detail'][:300]}")
            print(f"VIOLATION property={prop_id} replay={path}")
        return 1
    return 0


if __name__ == "__main__":
    sys.exit(main())
