#!/usr/bin/env python3
"""Byte-level search/replace that preserves a file's line endings (several msmart files are CRLF).
usage: bedit.py FILE OLD NEW   (OLD/NEW use \n for line breaks; converted to the file's convention)"""
import sys
path, old, new = sys.argv[1], sys.argv[2], sys.argv[3]
data = open(path, "rb").read()
crlf = b"\r\n" in data
def conv(s):
    b = s.encode().replace(b"\\n", b"\n")
    return b.replace(b"\n", b"\r\n") if crlf else b
o, n = conv(old), conv(new)
if data.count(o) != 1:
    sys.exit(f"expected exactly one occurrence, found {data.count(o)}")
open(path, "wb").write(data.replace(o, n))
