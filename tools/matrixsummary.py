#!/usr/bin/env python3
"""Summarise a seed x check matrix written by tools/seeded.py --matrix (which checks, besides the seeded property's
own one, raise on each seeded regression).  Prints a Markdown table."""
import collections
import json
import sys

m = json.load(open(sys.argv[1]))
per = collections.defaultdict(lambda: {"n": 0, "own": 0, "others": collections.Counter(), "errors": 0})
for seed, row in m.items():
    own = seed.split("-")[0]
    p = per[own]
    p["n"] += 1
    for chk, v in row.items():
        if v == "error":
            p["errors"] += 1
        elif v == "detected":
            if chk == own:
                p["own"] += 1
            else:
                p["others"][chk] += 1
print("| seeds of | n | own check raises | other checks that raise (number of seeds) | harness errors |")
print("|---|---|---|---|---|")
for own in sorted(per):
    p = per[own]
    others = ", ".join(f"{c} ({k})" for c, k in sorted(p["others"].items())) or "-"
    print(f"| {own} | {p['n']} | {p['own']} | {others} | {p['errors']} |")
tot = sum(p["n"] for p in per.values())
cells = sum(len(r) for r in m.values())
print(f"\n{tot} seeds x 20 checks = {cells} runs; {sum(1 for r in m.values() for v in r.values() if v == 'detected')} raised, "
      f"{sum(1 for r in m.values() for v in r.values() if v == 'error')} harness errors.")
