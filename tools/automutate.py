#!/usr/bin/env python3
"""Systematic sensitivity run: machine-generated single-token mutants of the library, each run through the repository's own
tests and then through the checks whose properties are anchored in the mutated file.

usage: tools/automutate.py [--per-file N] [--seed S] [--jobs J] [--files f1,f2] [--out mutants/auto-result.json] [--all-checks]

Operators (one edit per mutant, chosen by a seeded PRNG, stratified per file):
  comparison  == <-> !=, < <-> <=, > <-> >=, in <-> not in, is <-> is not
  boolean     and <-> or, `not x` -> `x`
  constant    int n -> n+1 (0 -> 1, 1 -> 0), True <-> False
  binary      + <-> -, & <-> |, << <-> >>, * -> //
Skipped: docstrings, logging calls, annotations, __repr__/__str__, tests.

Every mutant lives in a scratch copy under /tmp/vf-automut-<pid>/<n> that is removed as soon as it has been evaluated.
Verdicts: "tests" (the 65 baseline tests fail), "detected:<check>", "survived".
"""
import argparse
import ast
import concurrent.futures as cf
import json
import os
import random
import shutil
import subprocess
import sys

HERE = os.path.dirname(os.path.dirname(os.path.abspath(__file__)))
REPO = os.environ.get("VERIF_REPO", "/repo")

CHECKS_FOR = {
    "msmart/lan.py": ["C05", "C02", "C03", "C04", "C06", "C07", "C08", "C09", "C01", "C19"],      # (Security.udpid lives here and serves discovery)
    "msmart/frame.py": ["C12", "C13", "C14", "C11"],
    "msmart/device/AC/command.py": ["C11", "C10", "C12", "C13", "C14", "C15", "C16", "C20"],
    "msmart/device/AC/device.py": ["C01", "C10", "C11", "C16", "C14", "C13", "C15", "C12", "C20"],
    "msmart/base_device.py": ["C08", "C09", "C06", "C01", "C02"],
    "msmart/discover.py": ["C17", "C18", "C19"],
    "msmart/cloud.py": ["C19", "C18"],
    "msmart/cli.py": ["C20", "C10"],
    "msmart/utils.py": ["C10", "C11", "C16", "C20", "C14"],
}
DESELECT = ["msmart/tests/test_cloud.py::TestNetHomePlusCloud::test_get_token", "msmart/tests/test_cloud.py::TestNetHomePlusCloud::test_get_token_exception",
            "msmart/tests/test_cloud.py::TestNetHomePlusCloud::test_login", "msmart/tests/test_cloud.py::TestNetHomePlusCloud::test_login_exception",
            "msmart/tests/test_cloud.py::TestSmartHomeCloud::test_login", "msmart/tests/test_cloud.py::TestSmartHomeCloud::test_login_exception"]

CMP = {ast.Eq: "!=", ast.NotEq: "==", ast.Lt: "<=", ast.LtE: "<", ast.Gt: ">=", ast.GtE: ">", ast.In: "not in", ast.NotIn: "in", ast.Is: "is not", ast.IsNot: "is"}
BIN = {ast.Add: "-", ast.Sub: "+", ast.BitAnd: "|", ast.BitOr: "&", ast.LShift: ">>", ast.RShift: "<<", ast.Mult: "//"}
SRC = {ast.Eq: "==", ast.NotEq: "!=", ast.Lt: "<", ast.LtE: "<=", ast.Gt: ">", ast.GtE: ">=", ast.In: "in", ast.NotIn: "not in", ast.Is: "is", ast.IsNot: "is not",
       ast.Add: "+", ast.Sub: "-", ast.BitAnd: "&", ast.BitOr: "|", ast.LShift: "<<", ast.RShift: ">>", ast.Mult: "*", ast.And: "and", ast.Or: "or"}


def candidates(path: str):
    """Yield (start_offset, end_offset, replacement_bytes, description) for every applicable single edit."""
    raw = open(path, "rb").read()
    text = raw.decode("utf-8")
    tree = ast.parse(text)
    lines = raw.split(b"\n")
    starts = [0]
    for ln in lines:
        starts.append(starts[-1] + len(ln) + 1)

    def off(lineno, col):
        return starts[lineno - 1] + col

    skip_spans = []
    for node in ast.walk(tree):
        if isinstance(node, (ast.FunctionDef, ast.AsyncFunctionDef)) and node.name in ("__repr__", "__str__"):
            skip_spans.append((off(node.lineno, 0), off(node.end_lineno, node.end_col_offset)))
        if isinstance(node, ast.Call) and isinstance(node.func, ast.Attribute) and isinstance(node.func.value, ast.Name) and node.func.value.id in ("_LOGGER", "logging"):
            skip_spans.append((off(node.lineno, node.col_offset), off(node.end_lineno, node.end_col_offset)))
        if isinstance(node, ast.Expr) and isinstance(node.value, ast.Constant) and isinstance(node.value.value, str):
            skip_spans.append((off(node.lineno, node.col_offset), off(node.end_lineno, node.end_col_offset)))
        if isinstance(node, (ast.AnnAssign,)) and node.annotation is not None:
            a = node.annotation
            skip_spans.append((off(a.lineno, a.col_offset), off(a.end_lineno, a.end_col_offset)))
        if isinstance(node, ast.arg) and node.annotation is not None:
            a = node.annotation
            skip_spans.append((off(a.lineno, a.col_offset), off(a.end_lineno, a.end_col_offset)))

    def skipped(a, b):
        return any(s <= a and b <= e for s, e in skip_spans)

    def between(left_end, right_start, op_src):
        """Locate the operator token between two sub-expressions."""
        seg = raw[left_end:right_start]
        i = seg.find(op_src.encode())
        if i < 0:
            return None
        return left_end + i, left_end + i + len(op_src)

    for node in ast.walk(tree):
        if isinstance(node, ast.Compare) and len(node.ops) == 1 and type(node.ops[0]) in CMP:
            l, r = node.left, node.comparators[0]
            span = between(off(l.end_lineno, l.end_col_offset), off(r.lineno, r.col_offset), SRC[type(node.ops[0])])
            if span and not skipped(*span):
                yield span[0], span[1], CMP[type(node.ops[0])].encode(), f"L{node.lineno}: {SRC[type(node.ops[0])]} -> {CMP[type(node.ops[0])]}"
        elif isinstance(node, ast.BoolOp) and len(node.values) >= 2:
            l, r = node.values[0], node.values[1]
            src = SRC[type(node.op)]
            span = between(off(l.end_lineno, l.end_col_offset), off(r.lineno, r.col_offset), src)
            if span and not skipped(*span):
                new = "or" if src == "and" else "and"
                yield span[0], span[1], new.encode(), f"L{node.lineno}: {src} -> {new}"
        elif isinstance(node, ast.UnaryOp) and isinstance(node.op, ast.Not):
            a, b = off(node.lineno, node.col_offset), off(node.operand.lineno, node.operand.col_offset)
            if raw[a:b].strip() == b"not" and not skipped(a, b):
                yield a, b, b"", f"L{node.lineno}: not removed"
        elif isinstance(node, ast.BinOp) and type(node.op) in BIN:
            l, r = node.left, node.right
            if isinstance(l, ast.Constant) and isinstance(l.value, (str, bytes)):
                continue
            if isinstance(r, ast.Constant) and isinstance(r.value, (str, bytes)):
                continue
            span = between(off(l.end_lineno, l.end_col_offset), off(r.lineno, r.col_offset), SRC[type(node.op)])
            if span and not skipped(*span):
                yield span[0], span[1], BIN[type(node.op)].encode(), f"L{node.lineno}: {SRC[type(node.op)]} -> {BIN[type(node.op)]}"
        elif isinstance(node, ast.Constant) and node.lineno == node.end_lineno:
            a, b = off(node.lineno, node.col_offset), off(node.end_lineno, node.end_col_offset)
            if skipped(a, b):
                continue
            if node.value is True:
                yield a, b, b"False", f"L{node.lineno}: True -> False"
            elif node.value is False:
                yield a, b, b"True", f"L{node.lineno}: False -> True"
            elif isinstance(node.value, int) and not isinstance(node.value, bool):
                srcb = raw[a:b]
                new = {0: 1, 1: 0}.get(node.value, node.value + 1)
                rep = (hex(new) if srcb.lower().startswith(b"0x") else str(new)).encode()
                yield a, b, rep, f"L{node.lineno}: {srcb.decode()} -> {rep.decode()}"


def evaluate(job):
    idx, rel, a, b, rep, desc, scratch_root, all_checks = job
    d = os.path.join(scratch_root, str(idx))
    shutil.rmtree(d, ignore_errors=True)
    os.makedirs(d)
    res = {"n": idx, "file": rel, "edit": desc, "verdict": None, "checks": {}}
    try:
        shutil.copytree(os.path.join(REPO, "msmart"), os.path.join(d, "msmart"))
        for f in ("README.md", "pyproject.toml"):
            if os.path.exists(os.path.join(REPO, f)):
                shutil.copy(os.path.join(REPO, f), d)
        p = os.path.join(d, rel)
        raw = open(p, "rb").read()
        open(p, "wb").write(raw[:a] + rep + raw[b:])
        c = subprocess.run(["/venv/bin/python", "-B", "-c", f"import ast,sys; ast.parse(open({p!r}).read())"], capture_output=True)
        if c.returncode != 0:
            res["verdict"] = "invalid"
            return res
        cmd = ["/venv/bin/python", "-B", "-m", "pytest", "-q", "-p", "no:cacheprovider", "-x", "--timeout=300"]
        for t in DESELECT:
            cmd += ["--deselect", t]
        t = subprocess.run(cmd + ["msmart"], cwd=d, capture_output=True, text=True, timeout=900)
        if t.returncode != 0:
            res["verdict"] = "tests"
            return res
        env = dict(os.environ, VERIF_REPO=d, VERIF_SEED="0", PYTHONDONTWRITEBYTECODE="1")
        for chk in CHECKS_FOR[rel]:
            try:
                r = subprocess.run([os.path.join(HERE, "check"), chk, "quick", "--no-evidence"], env=env, capture_output=True, text=True, timeout=1800)
            except subprocess.TimeoutExpired:
                res["checks"][chk] = "timeout"
                res["verdict"] = res["verdict"] or f"detected:{chk}"
                if not all_checks:
                    break
                continue
            if r.returncode == 1 and "VIOLATION" in r.stdout:
                res["checks"][chk] = "DETECTED"
                res["verdict"] = res["verdict"] or f"detected:{chk}"
                if not all_checks:
                    break
            elif r.returncode == 0:
                res["checks"][chk] = "missed"
            else:
                res["checks"][chk] = f"error rc={r.returncode}: " + (r.stdout + r.stderr)[-300:]
                res["verdict"] = res["verdict"] or f"detected:{chk}(harness-error)"
                if not all_checks:
                    break
        res["verdict"] = res["verdict"] or "survived"
        return res
    except Exception as e:       # noqa
        res["verdict"] = f"runner-error: {e!r}"
        return res
    finally:
        shutil.rmtree(d, ignore_errors=True)


def main():
    ap = argparse.ArgumentParser()
    ap.add_argument("--per-file", type=int, default=20)
    ap.add_argument("--seed", type=int, default=1)
    ap.add_argument("--jobs", type=int, default=2)
    ap.add_argument("--files", default="")
    ap.add_argument("--out", default=os.path.join(HERE, "mutants", "auto-result.json"))
    ap.add_argument("--all-checks", action="store_true")
    args = ap.parse_args()
    rnd = random.Random(args.seed)
    files = [f for f in CHECKS_FOR if not args.files or f in args.files.split(",")]
    jobs = []
    scratch_root = f"/tmp/vf-automut-{os.getpid()}"
    n = 0
    totals = {}
    for rel in files:
        cands = list(candidates(os.path.join(REPO, rel)))
        totals[rel] = len(cands)
        rnd.shuffle(cands)
        for a, b, rep, desc in cands[:args.per_file]:
            n += 1
            jobs.append((n, rel, a, b, rep, desc, scratch_root, args.all_checks))
    print(f"{sum(totals.values())} candidate edits in {len(files)} files, {len(jobs)} sampled (seed {args.seed})", flush=True)
    results = []
    with cf.ThreadPoolExecutor(max_workers=args.jobs) as ex:
        for r in ex.map(evaluate, jobs):
            results.append(r)
            print(f"{r['n']:4d} {r['file']:32s} {r['edit']:34s} {r['verdict']}", flush=True)
    shutil.rmtree(scratch_root, ignore_errors=True)
    summary = {}
    for r in results:
        k = r["verdict"].split(":")[0]
        summary[k] = summary.get(k, 0) + 1
    json.dump({"seed": args.seed, "per_file": args.per_file, "candidates": totals, "summary": summary, "results": results}, open(args.out, "w"), indent=1)
    print("summary:", summary)


if __name__ == "__main__":
    main()
