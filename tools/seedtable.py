#!/usr/bin/env python3
"""Regenerate the seeded-regression table of DESIGN.md 9.6 from seeded/*/meta.json (as last written by
tools/seeded.py --update-meta).  Replaces the text between the markers <!-- seedtable:begin --> / <!-- seedtable:end -->."""
import json
import os
import re

HERE = os.path.dirname(os.path.dirname(os.path.abspath(__file__)))


def key(n):
    a, b = n.split("-")
    return (a, int(b))


rows = ["| seed | change | needs to manifest | result | first bucket |", "|---|---|---|---|---|"]
for n in sorted((d for d in os.listdir(os.path.join(HERE, "seeded")) if os.path.isdir(os.path.join(HERE, "seeded", d))), key=key):
    m = json.load(open(os.path.join(HERE, "seeded", n, "meta.json")))
    cv = m.get("confirmed_by_verif", {})
    res = []
    bucket = ""
    for c, v in cv.get("checks", {}).items():
        res.append(f"{c}: {'detected' if v['detected'] else 'MISSED'}")
        if v["buckets"] and not bucket:
            mm = re.match(r"bucket (\S+)", v["buckets"][0])
            bucket = f"`{mm.group(1)}`" if mm else ""
    if "obsolete_after" in m:
        res = [f"obsolete after {m['obsolete_after']}"]
    if "out_of_domain" in m:
        res = [r.replace("MISSED", "not detected (outside the checked domain, see text)") for r in res]
    clean = lambda s: str(s).replace("|", "/").replace("\n", " ")
    rows.append(f"| {n} | {clean(m.get('title', ''))[:110]} | {clean(m.get('needs_to_manifest', ''))[:150]} | {', '.join(res)} | {bucket} |")
p = os.path.join(HERE, "DESIGN.md")
s = open(p).read()
b, e = "<!-- seedtable:begin -->", "<!-- seedtable:end -->"
i, j = s.index(b), s.index(e)
open(p, "w").write(s[:i + len(b)] + "\n" + "\n".join(rows) + "\n" + s[j:])
print(len(rows) - 2, "rows")
