#!/bin/bash
# tools/ingest.sh <prefix e.g. R3> <offset e.g. 4>: copy sub-agent results /tmp/wt/<prefix>Cnn/seeded/{1,2} to seeded/Cnn-{1+offset,2+offset}
cd "$(dirname "$0")/.."
for n in 01 02 03 04 05 06 07 08 09 10 11 12 13 14 15 16 17 18 19 20; do
  for i in 1 2; do
    src=/tmp/wt/$1C$n/seeded/$i
    if [ -f $src/patch.diff ] && [ -f $src/demo.py ] && [ -f $src/meta.json ]; then
      j=$((i+$2)); mkdir -p seeded/C$n-$j; cp $src/patch.diff $src/demo.py $src/meta.json seeded/C$n-$j/
    else
      echo "missing: $src"
    fi
  done
done
