#!/usr/bin/env python3
"""Sensitivity runner: apply small deliberate breakages to scratch copies of the repository and run checks on them.

usage: tools/mutate.py mutants/<file>.json [--only NAME ...] [--jobs N] [--no-baseline] [--tier quick]

Each mutant: {"name":..., "file": "msmart/lan.py", "old": "...", "new": "...", "checks": ["C04"], "note": "..."}
``old``/``new`` use \n for newlines (converted to the file's own line ending convention).
A scratch copy lives under /tmp/vf-mut/<name> and is removed as soon as the mutant has been evaluated.
Output: one line per mutant: name, baseline tests pass?, per check DETECTED / missed.
"""
import argparse
import concurrent.futures as cf
import json
import os
import shutil
import subprocess
import sys

HERE = os.path.dirname(os.path.dirname(os.path.abspath(__file__)))
REPO = os.environ.get("VERIF_REPO", "/repo")
SCRATCH = "/tmp/vf-mut"


def bedit(path, old, new):
    data = open(path, "rb").read()
    crlf = b"\r\n" in data
    conv = lambda s: (s.encode().replace(b"\n", b"\r\n") if crlf else s.encode())
    o, n = conv(old), conv(new)
    c = data.count(o)
    if c != 1:
        raise SystemExit(f"{path}: expected exactly one occurrence of {old!r}, found {c}")
    open(path, "wb").write(data.replace(o, n))


def run_one(m, args):
    name = m["name"]
    d = os.path.join(SCRATCH, name)
    shutil.rmtree(d, ignore_errors=True)
    os.makedirs(d)
    res = {"name": name, "baseline": None, "checks": {}}
    try:
        shutil.copytree(os.path.join(REPO, "msmart"), os.path.join(d, "msmart"))
        for f in ("README.md", "pyproject.toml"):
            if os.path.exists(os.path.join(REPO, f)):
                shutil.copy(os.path.join(REPO, f), d)
        if os.path.isdir(os.path.join(REPO, "reference")):
            os.symlink(os.path.join(REPO, "reference"), os.path.join(d, "reference"))
        edits = m.get("edits") or [{"file": m["file"], "old": m["old"], "new": m["new"]}]
        for e in edits:
            bedit(os.path.join(d, e["file"]), e["old"], e["new"])
        if m.get("patch"):
            subprocess.run(["patch", "-p1", "-i", os.path.join(HERE, m["patch"])], cwd=d, check=True, capture_output=True)
        if not args.no_baseline:
            p = subprocess.run(["/venv/bin/python", "-B", "-m", "pytest", "-q", "-p", "no:cacheprovider", "-x", "--timeout=300",
                                "--deselect", "msmart/tests/test_cloud.py::TestNetHomePlusCloud::test_get_token",
                                "--deselect", "msmart/tests/test_cloud.py::TestNetHomePlusCloud::test_get_token_exception",
                                "--deselect", "msmart/tests/test_cloud.py::TestNetHomePlusCloud::test_login",
                                "--deselect", "msmart/tests/test_cloud.py::TestNetHomePlusCloud::test_login_exception",
                                "--deselect", "msmart/tests/test_cloud.py::TestSmartHomeCloud::test_login",
                                "--deselect", "msmart/tests/test_cloud.py::TestSmartHomeCloud::test_login_exception"],
                               cwd=d, capture_output=True, text=True, env=dict(os.environ, PYTHONDONTWRITEBYTECODE="1"))
            res["baseline"] = (p.returncode == 0)
            if p.returncode != 0:
                res["baseline_out"] = p.stdout[-600:]
        for c in m.get("checks", []):
            env = dict(os.environ, VERIF_REPO=d, VERIF_SEED=str(args.seed))
            p = subprocess.run([os.path.join(HERE, "check"), c, args.tier, "--no-evidence"] + (["--shards", str(args.shards)] if args.shards else []),
                               cwd=HERE, capture_output=True, text=True, env=env)
            buckets = [l.strip() for l in p.stdout.splitlines() if l.strip().startswith("bucket ")]
            res["checks"][c] = {"rc": p.returncode, "buckets": buckets[:4]}
            if p.returncode == 2:
                res["checks"][c]["out"] = (p.stdout + p.stderr)[-800:]
    finally:
        shutil.rmtree(d, ignore_errors=True)
    return res


def main():
    ap = argparse.ArgumentParser()
    ap.add_argument("file")
    ap.add_argument("--only", nargs="*")
    ap.add_argument("--jobs", type=int, default=4)
    ap.add_argument("--no-baseline", action="store_true")
    ap.add_argument("--tier", default="quick")
    ap.add_argument("--seed", type=int, default=0)
    ap.add_argument("--shards", type=int, default=4)
    ap.add_argument("--json", default=None)
    args = ap.parse_args()
    mutants = json.load(open(args.file))
    if args.only:
        mutants = [m for m in mutants if m["name"] in args.only]
    os.makedirs(SCRATCH, exist_ok=True)
    results = []
    with cf.ThreadPoolExecutor(args.jobs) as ex:
        for r in ex.map(lambda m: run_one(m, args), mutants):
            results.append(r)
            chk = " ".join(f"{c}:{'DETECTED' if v['rc'] == 1 else ('ERROR' if v['rc'] == 2 else 'missed')}" for c, v in r["checks"].items())
            print(f"{r['name']:40s} baseline={'pass' if r['baseline'] else ('n/a' if r['baseline'] is None else 'FAIL')}  {chk}")
            for c, v in r["checks"].items():
                for b in v["buckets"][:2]:
                    print(f"      {c} {b[:200]}")
                if v["rc"] == 2:
                    print("      " + v.get("out", "").replace("\n", "\n      "))
            if r["baseline"] is False:
                print("      " + r.get("baseline_out", "").replace("\n", "\n      "))
            sys.stdout.flush()
    if args.json:
        json.dump(results, open(args.json, "w"), indent=1)
    try:
        os.rmdir(SCRATCH)
    except OSError:
        pass


if __name__ == "__main__":
    main()
