#!/usr/bin/env python3
"""Confirm and evaluate seeded regressions kept under seeded/<id>-<n>/ (patch.diff, demo.py, meta.json).

For each: scratch copy of /repo -> demo passes on the clean copy -> patch applies -> the repository's own tests still
pass -> demo fails -> run the registered quick (or thorough) checks of the property against the patched copy.
Scratch copies live under /tmp/vf-seeded-<pid> and are removed immediately.

usage: tools/seeded.py [names...] [--tier quick] [--checks C01,C05] [--jobs 4] [--update-meta]
"""
import argparse
import concurrent.futures as cf
import json
import os
import shutil
import subprocess
import sys

HERE = os.path.dirname(os.path.dirname(os.path.abspath(__file__)))
REPO = "/repo"
SCRATCH = f"/tmp/vf-seeded-{os.getpid()}"      # per process: several evaluations may run at once
DESELECT = ["msmart/tests/test_cloud.py::TestNetHomePlusCloud::test_get_token", "msmart/tests/test_cloud.py::TestNetHomePlusCloud::test_get_token_exception",
            "msmart/tests/test_cloud.py::TestNetHomePlusCloud::test_login", "msmart/tests/test_cloud.py::TestNetHomePlusCloud::test_login_exception",
            "msmart/tests/test_cloud.py::TestSmartHomeCloud::test_login", "msmart/tests/test_cloud.py::TestSmartHomeCloud::test_login_exception"]


def sh(cmd, cwd, env=None, timeout=3600):
    return subprocess.run(cmd, cwd=cwd, capture_output=True, text=True, env=env, timeout=timeout)


def evaluate(name, args):
    src = os.path.join(HERE, "seeded", name)
    d = os.path.join(SCRATCH, name)
    shutil.rmtree(d, ignore_errors=True)
    os.makedirs(d)
    r = {"name": name}
    try:
        shutil.copytree(os.path.join(REPO, "msmart"), os.path.join(d, "msmart"))
        for f in ("README.md", "pyproject.toml", "example.py"):
            if os.path.exists(os.path.join(REPO, f)):
                shutil.copy(os.path.join(REPO, f), d)
        os.symlink(os.path.join(REPO, "reference"), os.path.join(d, "reference"))
        os.makedirs(os.path.join(d, "seeded", "x"))
        shutil.copy(os.path.join(src, "demo.py"), os.path.join(d, "seeded", "x", "demo.py"))
        env = dict(os.environ, PYTHONDONTWRITEBYTECODE="1")
        p = sh(["/venv/bin/python", "-B", "seeded/x/demo.py"], d, env, 300)
        r["demo_clean"] = p.returncode
        p = sh(["patch", "-p1", "--binary", "-i", os.path.join(src, "patch.diff")], d)
        r["patch"] = p.returncode
        if p.returncode != 0:
            r["patch_out"] = (p.stdout + p.stderr)[-500:]
            return r
        p = sh(["/venv/bin/python", "-B", "-m", "pytest", "-q", "-p", "no:cacheprovider", "--timeout=300"] + sum((["--deselect", x] for x in DESELECT), []), d, env)
        r["tests"] = p.returncode
        r["tests_line"] = p.stdout.strip().splitlines()[-1] if p.stdout.strip() else ""
        p = sh(["/venv/bin/python", "-B", "seeded/x/demo.py"], d, env, 300)
        r["demo_patched"] = p.returncode
        checks = args.checks.split(",") if args.checks else [name.split("-")[0]]
        r["checks"] = {}
        for c in checks:
            env2 = dict(os.environ, VERIF_REPO=d, VERIF_SEED=str(args.seed))
            p = sh([os.path.join(HERE, "check"), c, args.tier, "--no-evidence"] + (["--shards", str(args.shards)] if args.shards else []), HERE, env2)
            buckets = [l.strip()[:220] for l in p.stdout.splitlines() if l.strip().startswith("bucket ")]
            r["checks"][c] = {"rc": p.returncode, "buckets": buckets[:3]}
            if p.returncode == 2:
                r["checks"][c]["out"] = (p.stdout + p.stderr)[-700:]
    finally:
        shutil.rmtree(d, ignore_errors=True)
    return r


def main():
    ap = argparse.ArgumentParser()
    ap.add_argument("names", nargs="*")
    ap.add_argument("--tier", default="quick")
    ap.add_argument("--checks", default=None)
    ap.add_argument("--jobs", type=int, default=4)
    ap.add_argument("--seed", type=int, default=0)
    ap.add_argument("--shards", type=int, default=4)
    ap.add_argument("--update-meta", action="store_true")
    ap.add_argument("--matrix", default=None, help="write {seed: {check: detected}} to this JSON file")
    args = ap.parse_args()
    names = args.names or sorted(os.listdir(os.path.join(HERE, "seeded")))
    names = [n for n in names if os.path.isdir(os.path.join(HERE, "seeded", n))]
    if not args.names:
        def live(n):
            try:
                return "obsolete_after" not in json.load(open(os.path.join(HERE, "seeded", n, "meta.json")))
            except Exception:
                return True
        skipped = [n for n in names if not live(n)]
        names = [n for n in names if live(n)]
        if skipped:
            print("skipping obsolete entries:", ", ".join(skipped))
    os.makedirs(SCRATCH, exist_ok=True)
    matrix = {}
    with cf.ThreadPoolExecutor(args.jobs) as ex:
        for r in ex.map(lambda n: evaluate(n, args), names):
            matrix[r["name"]] = {c: ("detected" if v["rc"] == 1 else "error" if v["rc"] == 2 else "quiet") for c, v in r.get("checks", {}).items()}
            if args.matrix:
                json.dump(matrix, open(args.matrix, "w"), indent=0, sort_keys=True)
            ok = r.get("demo_clean") == 0 and r.get("patch") == 0 and r.get("tests") == 0 and r.get("demo_patched", 0) != 0
            chk = " ".join(f"{c}:{'DETECTED' if v['rc'] == 1 else ('ERROR' if v['rc'] == 2 else 'missed')}" for c, v in r.get("checks", {}).items())
            print(f"{r['name']:10s} confirmed={'yes' if ok else 'NO'} (demo clean rc={r.get('demo_clean')}, patch rc={r.get('patch')}, tests rc={r.get('tests')} [{r.get('tests_line', '')}], demo patched rc={r.get('demo_patched')})  {chk}")
            for c, v in r.get("checks", {}).items():
                for b in v["buckets"]:
                    print(f"      {c} {b}")
                if v["rc"] == 2:
                    print("      " + v.get("out", "").replace("\n", "\n      "))
            if r.get("patch_out"):
                print("      " + r["patch_out"].replace("\n", "\n      "))
            sys.stdout.flush()
            if args.update_meta:
                mp = os.path.join(HERE, "seeded", r["name"], "meta.json")
                try:
                    meta = json.load(open(mp))
                except Exception:
                    meta = {}
                meta["confirmed_by_verif"] = {"confirmed": ok, "demo_clean_rc": r.get("demo_clean"), "tests_rc": r.get("tests"), "tests_line": r.get("tests_line"),
                                              "demo_patched_rc": r.get("demo_patched"),
                                              "ran": "tools/seeded.py: scratch copy of /repo; demo on clean copy; patch -p1; repo pytest (6 network tests deselected); demo on patched copy; ./check <id> " + args.tier,
                                              "checks": {c: {"detected": v["rc"] == 1, "buckets": v["buckets"]} for c, v in r.get("checks", {}).items()}}
                json.dump(meta, open(mp, "w"), indent=1)
    try:
        os.rmdir(SCRATCH)
    except OSError:
        pass


if __name__ == "__main__":
    main()
