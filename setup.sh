#!/bin/bash
# Offline setup: make sure hypothesis (and, optionally, atheris) are importable by /venv/bin/python.
here="$(cd "$(dirname "${BASH_SOURCE[0]}")" && pwd)"
PY=/venv/bin/python
WH=/opt/veriftools/wheels
mkdir -p "$here/.deps"
if ! PYTHONPATH="$here/.deps" $PY -c "import hypothesis" >/dev/null 2>&1; then
  $PY -m pip install --no-index --find-links "$WH" --target "$here/.deps" hypothesis || exit 1
fi
if ! PYTHONPATH="$here/.deps" $PY -c "import atheris" >/dev/null 2>&1; then
  $PY -m pip install --no-index --find-links "$WH" --target "$here/.deps" atheris >/dev/null 2>&1 || echo "atheris not installable (optional)"
fi
PYTHONPATH="$here:$here/.deps" PYTHONHASHSEED=0 $PY -B -c "
from vf import harness; harness.setup()
from vf import selftest; selftest.run(); print('self-test ok')" || exit 1
