#!/usr/bin/env python3
"""Regenerate MANIFEST.json from the table below (keeps it valid at all times)."""
import json, os
HERE = os.path.dirname(os.path.abspath(__file__))
CHECKS = {}   # id -> (category, technique, text, note, design_ref)
exec(open(os.path.join(HERE, "manifest_table.py")).read())
ALL = [f"C{n:02d}" for n in range(1, 21)]
checks = []
for pid in ALL:
    if pid not in CHECKS:
        continue
    cat, tech, text, note, ref = CHECKS[pid]
    checks.append({
        "property_id": pid,
        "quick_cmd": f"./check {pid} quick",
        "thorough_cmd": f"./check {pid} thorough",
        "evidence_file": f"evidence/{pid}.json",
        "replay_cmd_template": f"./check {pid} --replay {{path}}",
        "engine": "vf",
        "level_claimed": {"category": cat, "text": text, "design_ref": ref},
        "level_note": note,
        "technique": tech,
    })
manifest = {
    "version": 1,
    "setup_cmd": "./setup.sh",
    "hooks": {
        "guard": "MSMART_VERIF",
        "enable": "no hooks: checks import /repo's working tree unmodified (guard name reserved, unused)",
        "baseline_off_cmd": "cd /repo && /venv/bin/python -m pytest -ra -q -p no:cacheprovider --timeout=900 --continue-on-collection-errors",
        "source_commits": [],
        "add_only": True,
    },
    "engines": [
        {"name": "vf", "path": "vf/", "serves_properties": [c["property_id"] for c in checks],
         "kind_free_text": "Hypothesis 6.168 property-based testing (stateful machines for histories), exhaustive itertools sweeps of finite sub-domains, atheris coverage-guided fuzzing in the thorough tier; library run unmodified against independent models (reference codec, model air conditioner, model cloud) on a virtual-time event loop with an in-memory network"}
    ],
    "checks": checks,
    "not_applicable": [{"property_id": p, "reason": NOT_APPLICABLE.get(p, "check not built yet (work in progress)")} for p in ALL if p not in CHECKS],
    "notes": "Family: property-based testing and fuzzing. See DESIGN.md. ./check <id> quick|thorough; ./check <id> --replay <file>.",
}
with open(os.path.join(HERE, "MANIFEST.json"), "w") as f:
    json.dump(manifest, f, indent=1)
    f.write("\n")
print("MANIFEST.json:", len(checks), "checks")
